(* Accept.v — C15: the accept / reject / trap status of the run-time checked operations
   (re-using the faithful shape/accept models of Broadcast.v, Views.v, Select.v, Linalg.v),
   NumPy's acceptance predicates, and the option monad by which an empty optional
   propagates through views, function compositions and eval (view/indexing.hpp lift_indexing,
   view/ufunc.hpp, eval.hpp:218-275). *)
From NM Require Import Base Index Broadcast Views Select Linalg.
Local Open Scope Z_scope.

Inductive status := SAccept | SReject | STrap.

Definition status_of_option {A} (o : option A) (defined : bool) : status :=
  if defined then match o with Some _ => SAccept | None => SReject end else STrap.
Definition status_of_outcome {A} (o : Select.outcome A) : status :=
  match o with Select.Val _ => SAccept | Select.Nothing => SReject | Select.Trap => STrap end.
Definition np_status (accepts : bool) : status := if accepts then SAccept else SReject.
Definition is_some {A} (o : option A) : bool := match o with Some _ => true | None => false end.

(* ---------- model statuses ---------- *)
Definition st_broadcast_shape (a b : list Z) := status_of_option (broadcast_shape2 a b) true.
Definition st_broadcast_to (a b : list Z) := status_of_option (shape_broadcast_to a b) true.
Definition st_reshape (src dst : list Z) := status_of_option (Views.shape_reshape src dst) true.
Definition st_normalize_axis (a n : Z) := status_of_option (Views.normalize_axis a n) true.
Definition st_transpose (axes : list Z) (src : list Z) :=
  status_of_option (transpose_accept (Some axes) src) (transpose_defined (Some axes) src).
Definition st_swapaxes (a1 a2 : Z) (src : list Z) := status_of_option (swapaxes_accept a1 a2 src) (swapaxes_defined a1 a2 src).
Definition st_expand_dims (a : Z) (src : list Z) :=
  status_of_option (expand_dims_accept (AxOne a) src) (expand_dims_defined (AxOne a) src).
Definition st_matmul_shape (a b : list Z) := status_of_option (shape_matmul a b) true.
Definition st_concat_shape (a b : list Z) (axis : Z) := status_of_outcome (shape_concat_axis a b axis).
Definition st_pad (s w : list Z) := status_of_outcome (shape_pad s w).
Definition st_roll (s : list Z) (a : Z) := status_of_outcome (shape_roll_axis s a).
Definition st_repeat (s : list Z) (r a : Z) := status_of_outcome (shape_repeat_axis s r a).
Definition st_resize (s d : list Z) := status_of_outcome (shape_resize s d).

(* ---------- NumPy's acceptance ---------- *)
Definition np_broadcast_ok (a b : list Z) := is_some (np_broadcast2 a b).
Definition np_broadcast_to_ok (a b : list Z) := is_some (np_broadcast_to_shape a b).
Definition np_reshape_ok (src dst : list Z) := is_some (Views.np_reshape_shape src dst).
Definition np_axis_ok (a n : Z) := (- n <=? a) && (a <? n).
Definition np_matmul_ok (a b : list Z) := is_some (np_matmul_shape a b).
Definition np_concat_ok (a b : list Z) (axis : Z) := is_some (np_concat_axis_shape a b axis).
Definition np_pad_ok (s w : list Z) := (zlen w =? 2 * zlen s) && forallb (fun x => 0 <=? x) w.
Definition np_repeat_ok (s : list Z) (r a : Z) := (0 <=? r) && np_axis_ok a (zlen s).

(* ---------- propagation of an empty optional ----------
   a pipeline stage maps a present value to a maybe value; every lifting function of the
   library (views on maybe operands, functional::apply, eval of a maybe view) is the bind
   of the option monad: an absent input is returned as absent WITHOUT calling the stage *)
Section Pipe.
Context {V : Type}.
Definition stage := V -> option V.
Definition lift (f : stage) (o : option V) : option V := match o with Some x => f x | None => None end.
Definition run_pipeline (fs : list stage) (o : option V) : option V := fold_left (fun acc f => lift f acc) fs o.
(* the stages actually CALLED on the way (a dereference of an empty optional would be a call on nothing) *)
Fixpoint called (fs : list stage) (o : option V) : list (stage * V) :=
  match fs, o with
  | f :: rest, Some x => (f, x) :: called rest (f x)
  | _, _ => []
  end.
End Pipe.
