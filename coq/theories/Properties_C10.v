(* Properties_C10.v — C10: eager evaluation returns exactly the lazy view;
   composition is unobservable.  Statements only.  A view is ANY (shape, element
   function): the theorems hold for every view kind, dimension and extents. *)
From NM Require Import Base Index IndexProofs Eval EvalProofs.
Local Open Scope Z_scope.

(* evaluating into an output of the view's shape (a supplied one, or the freshly
   resized result object) for either result layout: the shape is the view's shape,
   nothing is resized or reallocated, and every element equals the view's element *)
Theorem C10_eval_elements : forall (A : Type) (v : view A) (out : arr A) i,
  ashape out = vshape v -> pos (vshape v) ->
  Z.of_nat (length (abuf out)) = prod (vshape v) -> inb i (vshape v) ->
  ashape (eval_into v out) = vshape v
  /\ alayout (eval_into v out) = alayout out
  /\ length (abuf (eval_into v out)) = length (abuf out)
  /\ ndarray_get (alayout out) (vshape v) (abuf (eval_into v out)) i = Some (vget v i).
Proof. intros A v out i. exact (eval_into_right_shape v out i). Qed.
Print Assumptions C10_eval_elements.

(* array::fn(args) / eval(view): default-construct, resize to the view's shape, evaluate *)
Theorem C10_eval_default_dynamic : forall (A : Type) (v : view A) L (d : A) init i,
  pos (vshape v) -> inb i (vshape v) ->
  let r := eval_default v (fun _ s => fresh L d s) init in
  ashape r = vshape v /\ ndarray_get L (vshape v) (abuf r) i = Some (vget v i).
Proof.
  intros A v L d init i Hp Hi r. unfold r, eval_default.
  destruct (eval_into_right_shape v (fresh L d (vshape v)) i eq_refl Hp (fresh_length L d _ Hp) Hi)
    as (Hs & _ & _ & Hg).
  split; [exact Hs | exact Hg].
Qed.
Print Assumptions C10_eval_default_dynamic.

(* the row-major result buffer is the list of the view's elements in nested-loop order *)
Theorem C10_row_major_buffer : forall (A : Type) (v : view A) buf,
  pos (vshape v) -> Z.of_nat (length buf) = prod (vshape v) ->
  eval_loop v RowMajor (vshape v) buf = map (vget v) (lex_enum (vshape v)).
Proof. intros A v buf. exact (eval_row_major_buffer v buf). Qed.
Print Assumptions C10_row_major_buffer.

(* the evaluator writes nothing exactly when the supplied output has another shape
   (this is the silent early return of eval.hpp:153) *)
Theorem C10_skips_iff_shape_differs : forall (A : Type) (v : view A) (out : arr A),
  (ashape out <> vshape v -> eval_into v out = out)
  /\ (ashape out = vshape v ->
        abuf (eval_into v out) = eval_loop v (alayout out) (ashape out) (abuf out)).
Proof.
  intros A v out. split; [exact (eval_into_wrong_shape v out)|].
  intros H. unfold eval_into. now rewrite (proj2 (list_eqb_eq _ _) H).
Qed.
Print Assumptions C10_skips_iff_shape_differs.

(* a view of a view evaluated once = evaluate the inner view(s) to concrete arrays
   first (any layout), then apply the outer operation: for every outer operation
   that reads its operands only through in-bounds element access *)
Theorem C10_composition_unobservable : forall (A : Type) L (d0 : A) dshape (f : list A -> A) gs vs j,
  length gs = length vs ->
  Forall (fun gv => pos (vshape (snd gv)) /\ inb (fst gv j) (vshape (snd gv))) (combine gs vs) ->
  vget (remapn dshape gs f (map (materialise L d0) vs)) j = vget (remapn dshape gs f vs) j.
Proof. intros A L d0 dshape f gs vs j. exact (remapn_unobservable L d0 dshape f gs vs j). Qed.
Print Assumptions C10_composition_unobservable.

(* an EMPTY view (some extent is 0, e.g. an empty slice): the result has the view's shape and no cell, as the Spec buffer *)
Theorem C10_eval_empty_result : forall (A : Type) (v : view A) L (d : A) init,
  Forall (fun n => 0 <= n) (vshape v) -> prod (vshape v) = 0 ->
  let r := eval_default v (fun _ s => fresh L d s) init in
  ashape r = vshape v /\ abuf r = [] /\ spec_buffer RowMajor v = [].
Proof. intros A v L d init. exact (eval_empty v L d init). Qed.
Print Assumptions C10_eval_empty_result.

(* ---------- non-vacuity ---------- *)
Example C10_empty_nonvacuous :
  let v := {| vshape := [3;0;2]; vget := fun _ => 5 |} in
  ashape (eval_default v (fun _ s => fresh ColMajor 0 s) (fresh RowMajor 0 [1])) = [3;0;2].
Proof. reflexivity. Qed.

Example C10_nonvacuous :
  let v := {| vshape := [2;3]; vget := fun i => 10 * znth i 0 + znth i 1 |} in
  abuf (eval_into v (fresh RowMajor 0 [2;3])) = [0;1;2;10;11;12]
  /\ abuf (eval_into v (fresh ColMajor 0 [2;3])) = [0;10;1;11;2;12]
  /\ abuf (eval_into v (fresh RowMajor 7 [3;2])) = [7;7;7;7;7;7].
Proof. repeat split. Qed.
