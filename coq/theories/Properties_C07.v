(* Properties_C07.v — C07: element-wise functions apply the scalar operation to broadcast operands.
   Statements only.  The element types A B C R and the scalar operation f are arbitrary: the
   theorems say WHICH element of each operand feeds output element i, for every rank and all
   positive extents.  An operand is (shape, element function); a scalar has shape [].
   Model = Ufunc.ufunc1/2/3/outer (broadcast_arrays -> broadcast_to views -> ufunc_t::operator()).
   Spec  = NumPy: result shape np_broadcast2 / np_broadcast3, element i = f applied to the
           operands' elements at np_broadcast_to_idx (stretched axes read at 0, prepended axes dropped). *)
From NM Require Import Base Index IndexProofs Broadcast BroadcastProofs Ufunc UfuncProofs Dtype.
Local Open Scope Z_scope.

(* unary: same shape, element i = f a[i] *)
Theorem C07_unary : forall (A R : Type) (f : A -> R) (a : operand A),
  ufunc1 f a = (fst a, fun i => f (snd a i)).
Proof. intros A R f a. exact (ufunc1_spec A R f a). Qed.
Print Assumptions C07_unary.

(* binary: the view exists exactly when NumPy broadcasts the two shapes, and then has that shape *)
Theorem C07_binary_shape : forall (A B R : Type) (f : A -> B -> R) (a : operand A) (b : operand B),
  pos (fst a) -> pos (fst b) ->
  option_map fst (ufunc2 f a b) = np_broadcast2 (fst a) (fst b).
Proof. intros A B R f a b. exact (ufunc2_shape f a b). Qed.
Print Assumptions C07_binary_shape.

(* binary: element i = f (a at i under broadcasting) (b at i under broadcasting), both reads in bounds *)
Theorem C07_binary_elem : forall (A B R : Type) (f : A -> B -> R) (a : operand A) (b : operand B) d e i,
  pos (fst a) -> pos (fst b) -> ufunc2 f a b = Some (d, e) -> inb i d ->
  e i = f (snd a (np_broadcast_to_idx (fst a) i)) (snd b (np_broadcast_to_idx (fst b) i))
  /\ inb (np_broadcast_to_idx (fst a) i) (fst a) /\ inb (np_broadcast_to_idx (fst b) i) (fst b).
Proof.
  intros A B R f a b d e i Ha Hb H Hi.
  pose proof (ufunc2_correct A B R f a b Ha Hb) as G. rewrite H in G. unfold ufunc2_spec in G.
  destruct (np_broadcast2 (fst a) (fst b)) as [d'|]; [|contradiction].
  destruct G as [_ G]. exact (G i Hi).
Qed.
Print Assumptions C07_binary_elem.

(* ternary (where / clip): shape = NumPy's broadcast of the three shapes, element i = f a[i] b[i] c[i] under broadcasting *)
Theorem C07_ternary : forall (A B C R : Type) (f : A -> B -> C -> R) (a : operand A) (b : operand B) (c : operand C),
  pos (fst a) -> pos (fst b) -> pos (fst c) ->
  option_map fst (ufunc3 f a b c) = np_broadcast3 (fst a) (fst b) (fst c)
  /\ forall d e i, ufunc3 f a b c = Some (d, e) -> inb i d ->
       e i = f (snd a (np_broadcast_to_idx (fst a) i)) (snd b (np_broadcast_to_idx (fst b) i))
               (snd c (np_broadcast_to_idx (fst c) i))
       /\ inb (np_broadcast_to_idx (fst a) i) (fst a) /\ inb (np_broadcast_to_idx (fst b) i) (fst b)
       /\ inb (np_broadcast_to_idx (fst c) i) (fst c).
Proof.
  intros A B C R f a b c Ha Hb Hc. split; [exact (ufunc3_shape f a b c Ha Hb Hc)|].
  intros d e i H Hi.
  pose proof (ufunc3_correct A B C R f a b c Ha Hb Hc) as G. rewrite H in G. unfold ufunc3_spec in G.
  destruct (np_broadcast3 (fst a) (fst b) (fst c)) as [d'|]; [|contradiction].
  destruct G as [_ G]. exact (G i Hi).
Qed.
Print Assumptions C07_ternary.

(* outer: shape(a) ++ shape(b); element (i ++ j) = f a[i] b[j] *)
Theorem C07_outer : forall (A B R : Type) (f : A -> B -> R) (a : operand A) (b : operand B),
  fst (outer f a b) = fst a ++ fst b
  /\ (forall i j, length i = length (fst a) -> length j = length (fst b) ->
        snd (outer f a b) (i ++ j) = f (snd a i) (snd b j))
  /\ (forall k, inb k (fst a ++ fst b) ->
        inb (firstn (length (fst a)) k) (fst a) /\ inb (skipn (length (fst a)) k) (fst b)).
Proof.
  intros A B R f a b. destruct (outer_correct A B R f a b) as (H1 & H2 & H3).
  split; [exact H1|]. split; [|exact H3].
  intros i j Hi Hj. rewrite H2 by (rewrite app_length; lia).
  cbn [outer_spec snd]. rewrite <- Hi, firstn_app, Nat.sub_diag, firstn_all, skipn_app, Nat.sub_diag, skipn_all.
  cbn [firstn skipn]. now rewrite !app_nil_r.
Qed.
Print Assumptions C07_outer.

(* element types (LP64): the arithmetic result type is total by construction, symmetric, never narrower
   than int, one of the promoted operand types, floating iff an operand is floating — decided
   exhaustively over the 11 x 11 type pairs *)
Theorem C07_dtype_table : forall a b,
  promote_cxx a b = promote_cxx b a
  /\ (32 <=? bits (promote_cxx a b)) = true
  /\ (dtype_eqb (promote_cxx a b) (int_promote a) || dtype_eqb (promote_cxx a b) (int_promote b)) = true
  /\ is_float (promote_cxx a b) = is_float a || is_float b
  /\ promote_cxx a a = int_promote a.
Proof.
  intros a b. split; [exact (promote_cxx_comm a b)|].
  destruct (promote_cxx_props a b) as (H1 & H2 & H3).
  split; [exact H1|]. split; [exact H2|]. split; [exact H3 | exact (promote_cxx_idem a)].
Qed.
Print Assumptions C07_dtype_table.

(* the argument forms that select the result element type: default / casting::auto give the C++ promotion (a narrow
   element type widens to int), casting::same_kind / equiv keep the (common) operand type, an explicit dtype is the
   result type — for each of the 11 element types *)
Theorem C07_result_type_forms : forall a r,
  binary_result_dtype CastDefault Arith a a = int_promote a
  /\ binary_result_dtype CastAuto Arith a a = int_promote a
  /\ binary_result_dtype CastSameKind Arith a a = a
  /\ binary_result_dtype CastEquiv Arith a a = a
  /\ binary_result_dtype (CastDtype r) Arith a a = r
  /\ (bits a <? 32 = true -> is_float a = false -> binary_result_dtype CastDefault Arith a a = I32).
Proof. exact binary_result_dtype_forms. Qed.
Print Assumptions C07_result_type_forms.

(* ---------- non-vacuity ---------- *)
Definition iota7 (s : list Z) : operand Z := (s, fun i => horner 0 i s).
Example C07_nonvacuous_binary :
  exists e, ufunc2 (fun x y => 3 * x - y) (iota7 [2; 1; 3]) (iota7 [4; 1]) = Some ([2; 4; 3], e)
    /\ e [1; 2; 1] = 3 * 4 - 2 /\ inb [1; 2; 1] [2; 4; 3].
Proof. eexists. split; [reflexivity|]. split; [reflexivity | repeat constructor; lia]. Qed.
Example C07_nonvacuous_incompatible : ufunc2 Z.add (iota7 [2; 3]) (iota7 [3; 2]) = None.
Proof. reflexivity. Qed.
Example C07_nonvacuous_ternary_scalar :
  exists e, ufunc3 (fun c x y => if c =? 0 then y else x) (iota7 [2; 2]) (iota7 []) (iota7 [2]) = Some ([2; 2], e)
    /\ e [0; 0] = 0 /\ e [1; 1] = 0 /\ e [0; 1] = 0.
Proof. eexists. split; [reflexivity|]. repeat split; reflexivity. Qed.
Example C07_nonvacuous_outer : fst (outer Z.sub (iota7 [2]) (iota7 [3])) = [2; 3]
  /\ snd (outer Z.sub (iota7 [2]) (iota7 [3])) [1; 2] = 1 - 2.
Proof. split; reflexivity. Qed.
Example C07_nonvacuous_forms :
  typed_binary CastDefault Z.mul I8 I8 100 2 = 200 /\ typed_binary CastSameKind Z.mul I8 I8 100 2 = -56
  /\ typed_binary (CastDtype I16) Z.add U8 U8 200 100 = 300 /\ typed_binary CastEquiv Z.sub U16 U16 200 300 = 65436.
Proof. repeat split; reflexivity. Qed.
(* regression (repaired in /repo d41ab70): a scalar operand of another element type is used as a value, not converted to the
   array's element type: maximum(int8 element 1, int32 scalar 1000) = 1000, whereas converting the scalar first gives -24 *)
Example C07_regression_scalar_operand :
  typed_binary CastDefault Z.max I8 I32 1 1000 = 1000
  /\ typed_binary CastDefault Z.max I8 I32 1 1000 <> typed_binary CastDefault Z.max I8 I32 1 (int_cast I8 1000).
Proof. exact scalar_operand_is_a_value. Qed.
Example C07_nonvacuous_dtype : promote_cxx I8 I8 = I32 /\ promote_cxx I32 U32 = U32 /\ promote_cxx U32 I64 = I64
  /\ promote_cxx I64 U64 = U64 /\ promote_cxx I64 F32 = F32 /\ result_dtype None Compare F64 I8 = Bool.
Proof. repeat split; reflexivity. Qed.
