(* Properties_C11.v — C11: statically inferred shape, size and bounds agree with
   every run-time instance.  Statements only. *)
From NM Require Import Base Kinds KindsProofs.
Local Open Scope Z_scope.

(* the boolean check the correspondence applies to (reported knowledge, run-time shape)
   pairs observed on the implementation decides exactly the property's relation *)
Theorem C11_checker_is_gamma : forall K s, gammab K s = true <-> gamma K s.
Proof. exact gammab_spec. Qed.
Print Assumptions C11_checker_is_gamma.

(* the knowledge of every array kind holds for EVERY run-time shape the kind admits
   (constant / fixed-dim / bounded-dim / dynamic / clipped shape x fixed / bounded / dynamic buffer) *)
Theorem C11_array_kinds_sound : forall sk bk s0 s, admits sk bk s0 s -> gamma (know_of_kind sk bk s0) s.
Proof. exact kind_sound. Qed.
Print Assumptions C11_array_kinds_sound.

(* the rules by which the modelled view types derive their knowledge from the operand's are
   sound for every admitted run-time shape and every valid argument ... *)
Theorem C11_view_rules_sound : forall o K s, gamma K s -> pos s -> valid_vop o s = true ->
  gamma (know_vop o K) (shape_vop o s) /\ pos (shape_vop o s).
Proof. exact sound_vop. Qed.
Print Assumptions C11_view_rules_sound.

(* ... and so is any composition of them, of any depth *)
Theorem C11_compositions_sound : forall os K s, gamma K s -> pos s -> valid_chain os s = true ->
  gamma (know_chain os K) (shape_chain os s).
Proof. exact sound_chain. Qed.
Print Assumptions C11_compositions_sound.

(* result buffers chosen from sound knowledge always have room: the result type picked by the
   default resolver accepts the resize to the run-time shape (nothing is refused or clipped) *)
Theorem C11_resolver_has_room : forall K s, gamma K s -> pos s -> fits (resolve K) s = true.
Proof. exact resolver_has_room. Qed.
Print Assumptions C11_resolver_has_room.

Theorem C11_evaluated_composition_has_room : forall sk bk s0 s os,
  admits sk bk s0 s -> pos s -> valid_chain os s = true ->
  fits (resolve (know_chain os (know_of_kind sk bk s0))) (shape_chain os s) = true.
Proof. exact evaluated_composition_has_room. Qed.
Print Assumptions C11_evaluated_composition_has_room.

(* a result type that merely inherits the operand's capacity (what the legacy resolver
   eval_t does when the view's own knowledge is unknown) has NO room for a size-changing view *)
Theorem C11_inherited_capacity_refuted :
  exists sk bk s0 o, valid_vop o s0 = true /\ posb s0 = true
    /\ fits (resolve (know_of_kind sk bk s0)) (shape_vop o s0) = false
    /\ fits (resolve (know_vop o (know_of_kind sk bk s0))) (shape_vop o s0) = true.
Proof. exists SFixed, BFixed, [2;3;4], (VTile [2;1;1]). repeat split. Qed.
Print Assumptions C11_inherited_capacity_refuted.

(* broadcasting against a clipped extent: a sound rule exists, the library's rule
   (broadcast_shape.hpp:378-400: keep the clipped operand's bound) is not sound *)
Theorem C11_broadcast_clipped : 
  (forall ea eb a b r, gamma_ext ea a -> gamma_ext eb b -> bc a b = Some r -> gamma_ext (abs_ok ea eb) r)
  /\ (exists a b r, gamma_ext Dyn a /\ gamma_ext (Cl 2) b /\ bc a b = Some r /\ ~ gamma_ext (abs_lib Dyn (Cl 2)) r).
Proof. split; [exact abs_ok_sound | exact abs_lib_refuted]. Qed.
Print Assumptions C11_broadcast_clipped.

(* ---------- non-vacuity ---------- *)
Example C11_nonvacuous :
  admits SHybrid BHybrid [2;3;4] [4;2] /\ pos [4;2]
  /\ valid_chain [VExpandDims 0%nat; VTransposeCt [2;0;1]%nat; VSumAxis 1%nat; VConcatSelf 0%nat] [4;2] = true
  /\ shape_chain [VExpandDims 0%nat; VTransposeCt [2;0;1]%nat; VSumAxis 1%nat; VConcatSelf 0%nat] [4;2] = [4;4]
  /\ know_chain [VExpandDims 0%nat; VTransposeCt [2;0;1]%nat; VSumAxis 1%nat; VConcatSelf 0%nat] (know_of_kind SHybrid BHybrid [2;3;4])
     = {| fshape := None; fdim := None; fsize := None; bdim := Some 3; bsize := Some 48; clip := None |}.
Proof. repeat split; try (cbn; lia); repeat constructor; lia. Qed.
