(* Properties_C14.v — C14: functors, currying, composition and extraction are equivalent to direct
   views.  Statements only.  [val] is any type of values (arrays); a functor is ANY function from
   [arity] operands to a list of results, so every theorem holds for every functor of
   nmtools::functional whatever its array semantics (those are the other properties' business). *)
From NM Require Import Base Functor FunctorProofs.
Local Open Scope Z_scope.

(* operands may be supplied all at once or curried in ANY split (functional::apply is the split
   into singletons), for a functor ([f]) or a composition, complete or not: same state *)
Theorem C14_curry_any_split : forall (val : Type) (fs : list (functor val)) chunks1 chunks2,
  chunks1 <> [] -> chunks2 <> [] -> concat chunks1 = concat chunks2 ->
  feed val fs chunks1 = feed val fs chunks2 /\ feed val fs chunks1 = run val fs (concat chunks1).
Proof.
  intros val fs c1 c2 H1 H2 E. split; [exact (curry_any_split val fs c1 c2 H1 H2 E) | exact (feed_concat val fs c1 H1)].
Qed.
Print Assumptions C14_curry_any_split.

(* (f * g) ops = f (g ops_g ++ remaining operands): the stack machine computes exactly what the
   written chain denotes, however it is parenthesised *)
Theorem C14_compose_apply : forall (val : Type) (t : ctree val) ops st,
  denote val t ops = Some st -> run val (flatten val t) ops = ([], st).
Proof. exact denote_run. Qed.
Print Assumptions C14_compose_apply.

Theorem C14_compose_assoc : forall (val : Type) (a b c : ctree val) ops,
  flatten val (CC val (CC val a b) c) = flatten val (CC val a (CC val b c))
  /\ denote val (CC val (CC val a b) c) ops = denote val (CC val a (CC val b c)) ops.
Proof. intros val a b c ops. split; [exact (flatten_assoc val a b c) | exact (denote_assoc val a b c ops)]. Qed.
Print Assumptions C14_compose_assoc.

Theorem C14_compose_two : forall (val : Type) (f g : functor val) ops, (arity val g <= length ops)%nat ->
  run val (compose val [f] [g]) ops = run val [f] (fmap val g (firstn (arity val g) ops) ++ skipn (arity val g) ops).
Proof. exact compose_apply. Qed.
Print Assumptions C14_compose_two.

(* swap / dup / dig / bury are the stack permutations their names say *)
Theorem C14_combinators : forall (val : Type) (a b c : val) rest,
  run val [swap_f val] (a :: b :: rest) = ([], b :: a :: rest)
  /\ run val [dup_f val 2] (a :: rest) = ([], a :: a :: rest)
  /\ run val [dig_f val 2] (a :: b :: c :: rest) = ([], c :: a :: b :: rest)
  /\ run val [bury_f val 2] (a :: b :: c :: rest) = ([], b :: c :: a :: rest)
  /\ run val [dig_f val 1] (a :: b :: rest) = run val [swap_f val] (a :: b :: rest)
  /\ run val [bury_f val 1] (a :: b :: rest) = run val [swap_f val] (a :: b :: rest).
Proof. exact combinators_spec. Qed.
Print Assumptions C14_combinators.

(* the extracted composition applied to the extracted operands reproduces the view — on the class
   wf of trees whose non-leaf operands all sit at operand position 0 (any arity, any depth) *)
Theorem C14_extraction_correct_on_domain : forall (val : Type) (e : expr val),
  wf val e -> extracted val e = ([], [eval val e]).
Proof. exact extraction_correct. Qed.
Print Assumptions C14_extraction_correct_on_domain.

(* ... and NOT for every view: a non-leaf operand at position >= 1 is fed the wrong operands
   (finding extraction-nonleaf-operand-at-position>=1; the device kernels of C13 inherit it) *)
Theorem C14_extraction_refuted :
  exists e : expr Z, arity_ok e = true /\ extracted Z e <> ([], [eval Z e]).
Proof. exact extraction_refuted. Qed.
Print Assumptions C14_extraction_refuted.

(* the extracted operands are the leaves of the view, one per occurrence, in order *)
Theorem C14_operands_are_leaves : forall (val : Type) (e : expr val),
  operands val e = leaves_acc val e [] /\ length (operands val e) = n_leaves val e.
Proof. intros val e. split; [exact (operands_are_leaves val e) | exact (operands_count val e)]. Qed.
Print Assumptions C14_operands_are_leaves.

(* the compute graph has one node per operand occurrence and per operation, all distinct, and one
   edge per argument, each from a node of the graph to a different node of the graph *)
Theorem C14_graph_nodes_edges : forall (val : Type) (e : expr val),
  match graph val e with (ns, es) =>
    ns = seq 0 (n_leaves val e + n_ops val e) /\ NoDup ns /\ length es = n_args val e /\
    Forall (fun ed => In (fst ed) ns /\ In (snd ed) ns /\ fst ed <> snd ed) es
  end.
Proof. exact graph_nodes_edges. Qed.
Print Assumptions C14_graph_nodes_edges.

(* view DAGs (named leaves, sub-views used several times; a node is WHAT it computes): distinct nodes,
   no edge twice however many paths reach a shared node, edges exactly (operand node -> operation),
   every edge joins nodes of the graph *)
Theorem C14_dag_graph : forall t : nid,
  NoDup (dag_nodes t) /\ NoDup (dag_edges t)
  /\ (forall p, In p (dag_nodes t) <-> In p (subterms t))
  /\ (forall a p, In (a, p) (dag_edges t) <-> In p (dag_nodes t) /\ In a (operands_of p))
  /\ (forall a p, In (a, p) (dag_edges t) -> In a (dag_nodes t)).
Proof. exact dag_graph_spec. Qed.
Print Assumptions C14_dag_graph.

(* the in-edges of an operation node are exactly its distinct operand nodes, each once
   (in-degree = arity whenever the operands are different nodes); mirrored operands are different nodes *)
Theorem C14_dag_in_degree : forall t p : nid, In p (dag_nodes t) ->
  NoDup (in_edges p (dag_edges t)) /\ (forall a, In a (in_edges p (dag_edges t)) <-> In a (operands_of p)).
Proof. exact dag_in_edges. Qed.
Print Assumptions C14_dag_in_degree.

Theorem C14_distinct_operations_distinct_ids : forall x y : nid, nid_eqb x y = true <-> x = y.
Proof. intros x y. exact (nid_eqb_eq x y). Qed.
Print Assumptions C14_distinct_operations_distinct_ids.

(* PARTIAL: the C++ ids are hashes (generate_alias); they identify the nodes uniquely only under
   the hypothesis that the naming is injective on the nodes of this graph (checked by the driver
   for every generated pipeline, not provable: see C14_ids_unique_refuted_beyond_1033) *)
Theorem C14_ids_unique_partial : forall (B : Type) (h : nat -> B) (ns : list nat),
  NoDup ns -> (forall x y, In x ns -> In y ns -> h x = h y -> x = y) -> NoDup (map h ns).
Proof. intros B h ns. exact (ids_unique_partial h ns). Qed.
Print Assumptions C14_ids_unique_partial.

(* the hash takes only 1033 values: no graph with more nodes has unique ids *)
Theorem C14_ids_unique_refuted_beyond_1033 : forall ids : list Z,
  (forall l, 0 <= generate_alias l < 1033) /\
  (Forall (fun i => 0 <= i < 1033) ids -> (1033 < length ids)%nat -> ~ NoDup ids).
Proof. intros ids. split; [exact generate_alias_range | exact (ids_pigeonhole ids)]. Qed.
Print Assumptions C14_ids_unique_refuted_beyond_1033.

(* ... and the uniqueness clause fails outright, for ANY hash (here an ideal, injective one): every
   sub-view numbers its plain-array operands from 0, so leaves of different sub-views get the same
   id and are merged: matmul(a, transpose(b)) has 4 nodes but 3 ids (finding graph-node-id-collision) *)
Theorem C14_ids_unique_refuted :
  exists t : gtree, (length (snd (cxx_graph_keys t)) < g_nodes t)%nat.
Proof. exact ids_unique_refuted. Qed.
Print Assumptions C14_ids_unique_refuted.

(* ---------- non-vacuity ---------- *)
Definition add_f : functor Z := {| arity := 2; fmap := fun l => match l with [a; b] => [a + b] | _ => [] end |}.
Definition neg_f : functor Z := {| arity := 1; fmap := fun l => match l with [a] => [- a] | _ => [] end |}.
Definition sub_f : functor Z := lift Z sub_v.
(* add(add(a,b),c) curried 1+1+1 and 2+1 and at once; intermediate state is a curried composition *)
Example C14_nonvacuous_curry :
  feed Z [add_f; add_f] [[1]; [2]; [3]] = ([], [6]) /\ feed Z [add_f; add_f] [[1; 2]; [3]] = ([], [6])
  /\ feed Z [add_f; add_f] [[1]; [2]] = ([add_f], [3]).
Proof. repeat split; reflexivity. Qed.
(* (neg * sub) * swap = neg * (sub * swap) : -(b - a) *)
Example C14_nonvacuous_compose :
  denote Z (CC Z (CC Z (CF Z neg_f) (CF Z sub_f)) (CF Z (swap_f Z))) [10; 3] = Some [7]
  /\ run Z (flatten Z (CC Z (CF Z neg_f) (CC Z (CF Z sub_f) (CF Z (swap_f Z))))) [10; 3] = ([], [7]).
Proof. split; reflexivity. Qed.
(* a MULTI-output functor (swap) followed by non-commutative functors, with an operand the combinator does
   not consume: (mul * sub * swap)(a,b,c) = (b-a)*c whether supplied at once, as (a,b)(c) or (a)(b,c); and a
   call with a surplus operand returns (result, operand left over) *)
Definition mul_f : functor Z := {| arity := 2; fmap := fun l => match l with [a; b] => [a * b] | _ => [] end |}.
Example C14_nonvacuous_multi_output :
  feed Z [swap_f Z; sub_f; mul_f] [[10; 1; 5]] = ([], [-45])
  /\ feed Z [swap_f Z; sub_f; mul_f] [[10; 1]; [5]] = ([], [-45])
  /\ feed Z [swap_f Z; sub_f; mul_f] [[10]; [1; 5]] = ([], [-45])
  /\ feed Z [swap_f Z; sub_f] [[10; 1; 5]] = ([], [-9; 5])
  /\ feed Z [dig_f Z 2; sub_f; sub_f] [[1; 2; 3; 4]] = ([], [0; 4]).
Proof. repeat split; reflexivity. Qed.
(* a wf tree of depth 3 with a binary node over a non-leaf at position 0 *)
Example C14_nonvacuous_extraction :
  let e := Node Z dbl_v [Node Z sub_v [Node Z dbl_v [Leaf Z 4]; Leaf Z 3]] in
  wf Z e /\ extracted Z e = ([], [10]) /\ operands Z e = [4; 3] /\ graph Z e = ([0; 1; 2; 3; 4]%nat, [(0,1); (1,3); (2,3); (3,4)]%nat).
Proof. repeat split; reflexivity. Qed.
Example C14_refuted_values : eval Z refute_e = -19 /\ extracted Z refute_e = ([], [-8]).
Proof. split; reflexivity. Qed.
(* i; m=exp(i); s=sub(i,m); e=tanh(s); r=cos(s); d=add(e,r): nested diamonds, 6 nodes, 7 edges (not 9);
   p=sub(x,y), q=sub(y,x), d=mul(p,q): 5 nodes, 6 edges, mirrored operands are two nodes *)
Example C14_nonvacuous_dag :
  let i := LeafId 0 in let m := OpId 1 [i] in let s := OpId 2 [i; m] in
  let d := OpId 5 [OpId 3 [s]; OpId 4 [s]] in
  length (dag_nodes d) = 6%nat /\ length (dag_edges d) = 7%nat /\ length (all_edges d) = 10%nat
  /\ in_edges s (dag_edges d) = [i; m]
  /\ (let x := LeafId 0 in let y := LeafId 1 in let d2 := OpId 7 [OpId 2 [x; y]; OpId 2 [y; x]] in
      length (dag_nodes d2) = 5%nat /\ length (dag_edges d2) = 6%nat).
Proof. repeat split; reflexivity. Qed.
Example C14_alias_example : generate_alias [65; 66] = (65 * 512 + 66) mod 1033.
Proof. reflexivity. Qed.
