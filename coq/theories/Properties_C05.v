(* Properties_C05.v — C05: slicing follows Python / NumPy basic-indexing semantics.  Statements only.

   Model = index/slice.hpp after the repair "fix: slice arithmetic follows python's slice.indices"
   (normalize_slice = PySlice_AdjustIndices in int64_t, integer ceiling for the length).  The faithful model keeps
   every int64_t / size_t conversion as an explicit wrap; the theorems show they are all identities for arguments of
   the C++ argument types (bounds and steps of any integer type — int, int64_t, size_t — with magnitude below 2^62,
   extents below 2^62) and that the result is Python's — for EVERY such input:
   no input class, no box.  (Before the repair only an input class `slice_core` was right, 5 127 of the 7 588 box
   inputs were wrong; those theorems and refutations are archived in /verif/fixes/C05_pre_repair.) *)
From NM Require Import Base Slice SliceProofs.
Local Open Scope Z_scope.

(* One axis: the sliced axis has exactly the length Python's slice.indices gives and element k is source element
   start' + k*step, for every extent below 2^62, all bounds of magnitude below 2^62 (oint_ok; None, negative, out of
   range: clamped) and every non-zero step of magnitude below 2^62 (negative: walking backwards). *)
Theorem C05_slice_python : forall n a b c,
  0 <= n < 2 ^ 62 -> oint_ok a -> oint_ok b -> oint_ok c -> py_step c <> 0 ->
  slice_len n a b c = Len (py_len n a b c)
  /\ forall k, 0 <= k < py_len n a b c -> compute_index k n a b c = py_index k n a b c.
Proof. exact slice_python. Qed.
Print Assumptions C05_slice_python.

(* the normalisation itself is Python's PySlice_AdjustIndices *)
Theorem C05_normalize_is_slice_indices : forall n a b c,
  0 <= n < 2 ^ 62 -> oint_ok a -> oint_ok b -> oint_ok c ->
  normalize_slice n a b c = (py_start n a c, py_stop n b c, py_step c).
Proof. exact normalize_slice_eq. Qed.
Print Assumptions C05_normalize_is_slice_indices.

(* Python's rule never leaves the axis, hence neither does the code: every source index is in [0,n), the length in [0,n] *)
Theorem C05_index_in_bounds : forall n a b c k,
  0 <= n < 2 ^ 62 -> oint_ok a -> oint_ok b -> oint_ok c -> py_step c <> 0 ->
  0 <= k < py_len n a b c ->
  0 <= compute_index k n a b c < n /\ 0 <= py_len n a b c <= n.
Proof.
  intros n a b c k Hn Ha Hb Hc Hs Hk.
  destruct (slice_python n a b c Hn Ha Hb Hc Hs) as [_ Hi]. rewrite (Hi k Hk).
  split; [apply py_index_inb; (lia || assumption) | apply py_len_bounds; (lia || assumption)].
Qed.
Print Assumptions C05_index_in_bounds.

(* Several axes, any rank: ranges as above, integers in [-n,n), at most one ellipsis, the parts account for the axes.
   The shape is Python's (integers drop their axis, the ellipsis stands for dim - #other parts full slices, possibly
   none) and every result index maps to Python's source index.  The typed-tuple path and the run-time-list path are
   this one function (their C++ differences do not change a value; corresponded on every case). *)
Theorem C05_multi_axis : forall shape sls,
  multi_dom shape sls = true ->
  shape_slice shape sls = map Len (py_shape shape sls)
  /\ forall idx, inb idx (py_shape shape sls) -> slice_index idx shape sls = py_src_index idx shape sls.
Proof. exact multi_axis. Qed.
Print Assumptions C05_multi_axis.

(* independent finite cross-check of the theorem on the property's box (and n = 7):
   n in 1..7, start/stop in [-(n+2), n+2] or None, step in {-3..3}\{0} or None: all 10 388 inputs *)
Theorem C05_python_on_box :
  count (fun _ => true) (box_axis 7) = 10388
  /\ forallb (on_axis model_axis_ok) (box_axis 7) = true.
Proof. vm_compute. split; reflexivity. Qed.
Print Assumptions C05_python_on_box.

(* a zero step stays outside: Python raises ValueError, the code divides by zero *)
Theorem C05_zero_step_undefined : forall n a b, slice_len n a b (Some 0) = LenUB.
Proof. intros. unfold slice_len. cbn. reflexivity. Qed.
Print Assumptions C05_zero_step_undefined.

(* ---------- non-vacuity: the witnesses that refuted the pinned arithmetic are now Python's ---------- *)
Example C05_nonvacuous_axis :
  (* a[-1:] on n = 1 (was length 2, index 2) *)
  slice_len 1 (Some (-1)) None None = Len 1 /\ compute_index 0 1 (Some (-1)) None None = 0
  (* a[2:], a[:-2] on n = 1 (were undefined behaviour), a[1:0] (was length 1) *)
  /\ slice_len 1 (Some 2) None None = Len 0 /\ slice_len 1 None (Some (-2)) None = Len 0
  /\ slice_len 1 (Some 1) (Some 0) None = Len 0
  (* a[3:1:-1] on n = 5 (walked 0,-1) *)
  /\ slice_len 5 (Some 3) (Some 1) (Some (-1)) = Len 2
  /\ compute_index 0 5 (Some 3) (Some 1) (Some (-1)) = 3 /\ compute_index 1 5 (Some 3) (Some 1) (Some (-1)) = 2
  (* extents above 2^24 (the length went through binary32) and at 2^31-1 (undefined conversion) *)
  /\ slice_len (2 ^ 24 + 1) None None None = Len (2 ^ 24 + 1)
  /\ slice_len (2 ^ 31 - 1) (Some (-5)) None (Some (-2)) = Len 1073741822
  /\ axis_dom (2 ^ 31 - 1) (Some (-5)) None (Some (-2)) = true
  (* extents and bounds beyond 32 bits *)
  /\ slice_len (2 ^ 31) None None None = Len (2 ^ 31)
  /\ slice_len (2 ^ 31 - 2) (Some 0) (Some (2 ^ 31)) None = Len (2 ^ 31 - 2)
  /\ slice_len (2 ^ 62 - 1) (Some (- 2 ^ 40)) (Some (2 ^ 62 - 1)) (Some (2 ^ 32 + 1)) = Len 256
  /\ axis_dom (2 ^ 62 - 1) (Some (- 2 ^ 40)) (Some (2 ^ 62 - 1)) (Some (2 ^ 32 + 1)) = true.
Proof. vm_compute. repeat split; reflexivity. Qed.
Example C05_nonvacuous_multi :
  let sls := [SInt (-1); SEll; SRange None (Some 3) None; SRange (Some (-2)) None (Some (-2))] in
  multi_dom [4; 5; 6; 7; 8] sls = true
  /\ py_shape [4; 5; 6; 7; 8] sls = [5; 6; 3; 4]
  /\ slice_index [4; 5; 2; 3] [4; 5; 6; 7; 8] sls = [3; 4; 5; 2; 0]
  (* a trailing ellipsis standing for no axis *)
  /\ multi_dom [1] [SRange (Some 1) (Some 1) None; SEll] = true
  /\ shape_slice [1] [SRange (Some 1) (Some 1) None; SEll] = [Len 0].
Proof. vm_compute. repeat split; reflexivity. Qed.
