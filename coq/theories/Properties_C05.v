(* Properties_C05.v — placeholder during construction *)
From NM Require Import Base Slice.
Local Open Scope Z_scope.
Theorem C05_refuted_neg_start_open : exists n a, slice_len n (Some a) None None <> Len (py_len n (Some a) None None).
Proof. exists 1, (-3). vm_compute. discriminate. Qed.
