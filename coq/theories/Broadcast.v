(* Broadcast.v — model of include/nmtools/array/index/broadcast_shape.hpp,
   broadcast_to.hpp (with free_axes / logical_not / nonzero / gather) and the
   NumPy reference definitions they are compared with. *)
From NM Require Import Base Index.
Local Open Scope Z_scope.

(* ---------- broadcast_shape (broadcast_shape.hpp:37-180) ----------
   The C++ fills the result from the back: for i = 0,1,.. it reads
   a[adim-1-i], b[bdim-1-i]; when both exist  success = (a==b)||(a==1)||(b==1)
   and res = max(a,b); when only one exists it is copied; the loop stops at the
   first failure.  On reversed lists this is the structural recursion below. *)
Definition compat (x y : Z) : bool := (x =? y) || (x =? 1) || (y =? 1).

Fixpoint bshape_rev (a b : list Z) : option (list Z) :=
  match a, b with
  | [], _ => Some b
  | _, [] => Some a
  | x :: a', y :: b' =>
      if compat x y then option_map (cons (Z.max x y)) (bshape_rev a' b') else None
  end.
Definition broadcast_shape2 (a b : list Z) : option (list Z) :=
  option_map (@rev Z) (bshape_rev (rev a) (rev b)).

Definition obind {A B} (o : option A) (f : A -> option B) : option B :=
  match o with Some x => f x | None => None end.

(* variadic broadcast_shape(a,b,c,...) = left fold (broadcast_shape.hpp:230-245) *)
Fixpoint broadcast_shape_n (acc : list Z) (l : list (list Z)) : option (list Z) :=
  match l with
  | [] => Some acc
  | s :: t => obind (broadcast_shape2 acc s) (fun r => broadcast_shape_n r t)
  end.
Definition broadcast_shapes (l : list (list Z)) : option (list Z) :=
  match l with [] => None | s :: t => broadcast_shape_n s t end.

(* ---------- shape_broadcast_to (broadcast_to.hpp:90-209) ----------
   success starts as bdim >= adim; axis bi of the target (from the back):
     no source axis      -> res = b, free
     a == b              -> res = a, not free
     a == 1 (and a != b) -> res = b, free
     otherwise           -> failure.
   Written on the aligned suffix of b; the leading bdim-adim axes are free. *)
Fixpoint sbt_aligned (a b : list Z) : option (list (Z * bool)) :=
  match a, b with
  | [], [] => Some []
  | x :: a', y :: b' =>
      if x =? y then option_map (cons (x, false)) (sbt_aligned a' b')
      else if x =? 1 then option_map (cons (y, true)) (sbt_aligned a' b')
      else None
  | _, _ => None
  end.
Definition shape_broadcast_to (a b : list Z) : option (list Z * list bool) :=
  if (length a <=? length b)%nat then
    let m := (length b - length a)%nat in
    match sbt_aligned a (skipn m b) with
    | Some l => Some (firstn m b ++ map fst l, repeat true m ++ map snd l)
    | None => None
    end
  else None.

(* logical_not.hpp, nonzero.hpp, gather.hpp *)
Definition logical_not (l : list bool) : list bool := map negb l.
Fixpoint nonzero_from (k : nat) (l : list bool) : list nat :=
  match l with [] => [] | b :: t => if b then k :: nonzero_from (S k) t else nonzero_from (S k) t end.
Definition nonzero (l : list bool) : list nat := nonzero_from 0 l.
Definition gather (l : list Z) (idx : list nat) : list Z := map (fun k => nth k l 0) idx.
Definition origin_axes (free : list bool) : list nat := nonzero (logical_not free).

(* index::broadcast_to (broadcast_to.hpp:307-330) *)
Definition broadcast_to_idx (i src dst : list Z) (origin : list nat) : list Z :=
  let origin_shape := gather dst origin in
  let origin_strides := compute_strides origin_shape in
  let origin_indices := gather i origin in
  compute_indices (compute_offset origin_indices origin_strides) src.

(* the view: element i of broadcast_to(a, b) reads source index ... *)
Definition broadcast_to_view (src dst : list Z) : option (list Z * (list Z -> list Z)) :=
  match shape_broadcast_to src dst with
  | Some (d, free) => Some (d, fun i => broadcast_to_idx i src d (origin_axes free))
  | None => None
  end.

(* ---------- Spec: NumPy's rule ---------- *)
(* left-pad with 1s to a common rank, per axis all extents equal or 1, result = max *)
Definition pad_to (n : nat) (s : list Z) : list Z := repeat 1 (n - length s) ++ s.
Fixpoint np_axes (a b : list Z) : option (list Z) :=     (* equal lengths *)
  match a, b with
  | [], [] => Some []
  | x :: a', y :: b' =>
      if (x =? y) || (x =? 1) || (y =? 1) then option_map (cons (Z.max x y)) (np_axes a' b') else None
  | _, _ => None
  end.
Definition np_broadcast2 (a b : list Z) : option (list Z) :=
  let n := Nat.max (length a) (length b) in np_axes (pad_to n a) (pad_to n b).

(* n-ary rule stated directly: rank = max rank; per axis the set of extents
   other than 1 has at most one value, which (or 1) is the result *)
Definition np_axis_n (col : list Z) : option Z :=
  match filter (fun x => negb (x =? 1)) col with
  | [] => Some 1
  | x :: t => if forallb (Z.eqb x) t then Some x else None
  end.
Fixpoint transpose_cols (n : nat) (rows : list (list Z)) : list (list Z) :=
  match n with
  | O => []
  | S n' => map (fun r => hd 1 r) rows :: transpose_cols n' (map (@tl Z) rows)
  end.
Fixpoint sequence {A} (l : list (option A)) : option (list A) :=
  match l with
  | [] => Some []
  | Some x :: t => option_map (cons x) (sequence t)
  | None :: _ => None
  end.
Definition np_broadcast_n (l : list (list Z)) : option (list Z) :=
  match l with
  | [] => None
  | _ => let n := fold_left Nat.max (map (@length Z) l) O in
         sequence (map np_axis_n (transpose_cols n (map (pad_to n) l)))
  end.

(* broadcast_to: succeeds iff, right aligned, every source extent equals the
   target extent or is 1 and the source rank does not exceed the target rank;
   element i is the source element whose coordinate on axis j is 0 where the
   source extent is 1 and the aligned coordinate of i otherwise *)
Fixpoint np_bto_ok (a b : list Z) : bool :=   (* aligned, equal length *)
  match a, b with
  | [], [] => true
  | x :: a', y :: b' => ((x =? y) || (x =? 1)) && np_bto_ok a' b'
  | _, _ => false
  end.
Definition np_broadcast_to_shape (a b : list Z) : option (list Z) :=
  if (length a <=? length b)%nat && np_bto_ok a (skipn (length b - length a) b) then Some b else None.
Fixpoint np_bto_idx_aligned (a i : list Z) : list Z :=
  match a, i with
  | x :: a', k :: i' => (if x =? 1 then 0 else k) :: np_bto_idx_aligned a' i'
  | _, _ => []
  end.
Definition np_broadcast_to_idx (a : list Z) (i : list Z) : list Z :=
  np_bto_idx_aligned a (skipn (length i - length a) i).
