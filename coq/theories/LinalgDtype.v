(* LinalgDtype.v — C16 along the "element types of the two operands" dimension: which element type the result of
   each linear-algebra routine has, and the value stored for an exact (integer or binary-fraction) defining sum.
   Platform LP64 (Dtype.v).  The type set is finite: every statement is decided by exhaustive computation. *)
From NM Require Import Base Dtype.
Local Open Scope Z_scope.

(* how a routine combines the two element types:
   RMatmul   view::matmul / array::matmul: matmul_t::result_type = meta::common_type_t<lhs_elem, rhs_elem>
             (the sum of products, accumulated in the type of a*b, is static_cast to it)
   RSumProd  matmulv2, dot, inner, vecdot, tensordot: view::multiply (decltype(a*b): C++ promotion) then view::sum,
             which keeps the element type of its operand
   RProd     outer, kron: view::multiply only
   RTrace / RDiagonal  one operand: view::sum of the diagonal keeps the element type / the element type itself *)
Inductive routine := RMatmul | RSumProd | RProd | RTrace | RDiagonal.

Definition make_signed (d : dtype) : dtype :=
  match d with U8 => I8 | U16 => I16 | U32 => I32 | U64 => I64 | x => x end.

(* meta::common_type (meta/bits/transform/common_type.hpp:46-114), two numeric types:
   integer with floating -> the floating one; otherwise sizeof(l) > sizeof(r) ? l : r; make_signed when either is signed *)
Definition nm_common_type (l r : dtype) : dtype :=
  if negb (is_float l) && is_float r then r
  else if is_float l && negb (is_float r) then l
  else let c := if bits r <? bits l then l else r in
       if is_signed l || is_signed r then make_signed c else c.

(* ---------- Model ---------- *)
Definition model_dtype (rt : routine) (a b : dtype) : dtype :=
  match rt with
  | RMatmul => nm_common_type a b
  | RSumProd => reduce_dtype None (result_dtype None Arith a b)
  | RProd => result_dtype None Arith a b
  | RTrace => reduce_dtype None a
  | RDiagonal => a
  end.

(* ---------- Spec ----------
   NumPy's numpy.result_type on the element types (same kind: the wider; unsigned with signed: the signed type that
   holds both; integer with floating: float32 holds integers of at most 16 bits, else float64), trace / sum accumulate
   integers narrower than the platform integer in int64 / uint64 — EXCEPT on the listed pairs, where nmtools' rule
   (meta::common_type, resp. C++ integral promotion / usual arithmetic conversions) gives another type.  C16 does not fix the
   element type; the tables state exactly where the library departs from NumPy, everything else must be NumPy's. *)
Definition np_result_type (a b : dtype) : dtype :=
  if is_float a && is_float b then (if bits b <? bits a then a else b)
  else if is_float a || is_float b then
    let f := if is_float a then a else b in let i := if is_float a then b else a in
    match f with F64 => F64 | _ => if bits i <=? 16 then F32 else F64 end
  else if Bool.eqb (is_signed a) (is_signed b) then (if bits b <? bits a then a else b)
  else let s := if is_signed a then a else b in let u := if is_signed a then b else a in
       if bits u <? bits s then s
       else match u with U8 => I16 | U16 => I32 | U32 => I64 | _ => F64 end.
Definition np_accumulate_type (a : dtype) : dtype :=
  match a with Bool | I8 | I16 | I32 => I64 | U8 | U16 | U32 => U64 | x => x end.

Definition used_dtypes : list dtype := [I8; I16; I32; I64; U8; F32; F64].

Definition diverges_matmul : list (dtype * dtype * dtype) :=
  [(I8, U8, I8); (I32, F32, F32); (I64, F32, F32); (U8, I8, I8); (F32, I32, F32); (F32, I64, F32)].
Definition diverges_sumprod : list (dtype * dtype * dtype) :=
  [(I8, I8, I32); (I8, I16, I32); (I8, U8, I32); (I16, I8, I32); (I16, I16, I32); (I16, U8, I32); (I32, F32, F32);
   (I64, F32, F32); (U8, I8, I32); (U8, I16, I32); (U8, U8, I32); (F32, I32, F32); (F32, I64, F32)].
Definition diverges_trace : list (dtype * dtype * dtype) :=
  [(I8, I8, I8); (I16, I16, I16); (I32, I32, I32); (U8, U8, U8)].

Fixpoint lookup (t : list (dtype * dtype * dtype)) (a b : dtype) : option dtype :=
  match t with
  | [] => None
  | (x, y, r) :: t' => if dtype_eqb x a && dtype_eqb y b then Some r else lookup t' a b
  end.
Definition spec_dtype (rt : routine) (a b : dtype) : dtype :=
  let (table, np) := match rt with
    | RMatmul => (diverges_matmul, np_result_type a b)
    | RSumProd | RProd => (diverges_sumprod, np_result_type a b)
    | RTrace => (diverges_trace, np_accumulate_type a)
    | RDiagonal => ([], a)
    end in
  match lookup table a (match rt with RTrace | RDiagonal => a | _ => b end) with Some r => r | None => np end.

(* ---------- values ----------
   an exact value num / den (den in {1,2,4}: floating operands carry halves) stored into the result element type:
   floating: exact (the generated magnitudes stay far below 2^24); integer: the conversion of Dtype.int_cast *)
Definition store (d : dtype) (num den : Z) : Z * Z :=
  if is_float d then (num, den) else (int_cast d (num / den), 1).

(* ---------- facts ---------- *)
Definition forall_used2 (p : dtype -> dtype -> bool) : bool :=
  forallb (fun a => forallb (p a) used_dtypes) used_dtypes.
Lemma forall_used2_spec p : forall_used2 p = true -> forall a b, In a used_dtypes -> In b used_dtypes -> p a b = true.
Proof.
  unfold forall_used2. intros H a b Ha Hb. rewrite forallb_forall in H. specialize (H a Ha).
  rewrite forallb_forall in H. exact (H b Hb).
Qed.

(* Model = Spec on every ordered pair of the element types used, for every routine *)
Theorem model_dtype_spec rt a b : In a used_dtypes -> In b used_dtypes -> model_dtype rt a b = spec_dtype rt a b.
Proof.
  intros Ha Hb. apply dtype_eqb_eq. revert a b Ha Hb.
  apply (forall_used2_spec (fun a b => dtype_eqb (model_dtype rt a b) (spec_dtype rt a b))).
  destruct rt; vm_compute; reflexivity.
Qed.

(* the tables are tight: every listed entry really differs from NumPy's type *)
Theorem diverges_tables_tight :
  forallb (fun e => let '(a, b, r) := e in negb (dtype_eqb r (np_result_type a b))) (diverges_matmul ++ diverges_sumprod) = true
  /\ forallb (fun e => let '(a, b, r) := e in negb (dtype_eqb r (np_accumulate_type a))) diverges_trace = true.
Proof. split; vm_compute; reflexivity. Qed.

(* the result type always holds both operand types' values when it is not one of the narrow integer types
   (so narrow x wide never loses the wide operand): the matmul type is never narrower than either operand *)
Theorem matmul_dtype_not_narrower a b : In a used_dtypes -> In b used_dtypes ->
  (is_float (model_dtype RMatmul a b) = is_float a || is_float b)
  /\ (is_float a || is_float b = false -> bits a <= bits (model_dtype RMatmul a b) /\ bits b <= bits (model_dtype RMatmul a b)).
Proof.
  intros Ha Hb.
  assert (H : (fun a b => Bool.eqb (is_float (model_dtype RMatmul a b)) (is_float a || is_float b)
                 && (is_float a || is_float b || ((bits a <=? bits (model_dtype RMatmul a b)) && (bits b <=? bits (model_dtype RMatmul a b))))) a b = true).
  { revert a b Ha Hb. apply forall_used2_spec. vm_compute. reflexivity. }
  cbv beta in H. apply andb_prop in H as [H1 H2]. apply Bool.eqb_prop in H1. split; [exact H1|].
  intros Hf. rewrite Hf in H2. cbn [orb] in H2. apply andb_prop in H2 as [H2 H3]. lia.
Qed.
