(* KernelProofs.v — lemmas for C13 (lifted from DESIGN Appendix E.3, with the explicit
   out-of-range-read outcome and (thread id, block id, block size) triples). *)
From Coq Require Import Permutation.
From NM Require Import Base Index IndexProofs Kernel.
Local Open Scope Z_scope.

Lemma nth_error_ext {B} (l1 l2 : list B) :
  length l1 = length l2 -> (forall j, (j < length l1)%nat -> nth_error l1 j = nth_error l2 j) -> l1 = l2.
Proof.
  revert l2; induction l1 as [|a l1 IH]; destruct l2 as [|b l2]; simpl; intros Hl H; try discriminate; auto.
  f_equal.
  - specialize (H 0%nat ltac:(lia)); simpl in H; congruence.
  - apply IH; [lia|]. intros j Hj. apply (H (S j)); lia.
Qed.

Section KernelProofs.
Variable A : Type.
Implicit Types (r out : list A) (sched : list (Z * Z)).

Lemma assign_result_cases r bsz out t :
  (length out <= length r)%nat ->
  let idx := thread_offset (fst t) (snd t) bsz in
  (0 <= idx < zlen out /\ exists v, nth_error r (Z.to_nat idx) = Some v
      /\ assign_result A r bsz out t = Some (upd out (Z.to_nat idx) v))
  \/ (~ (0 <= idx < zlen out) /\ assign_result A r bsz out t = Some out).
Proof.
  intros Hl idx. unfold assign_result. fold idx. unfold zlen in *.
  destruct (Z.leb_spec 0 idx) as [H0|H0]; destruct (Z.ltb_spec idx (Z.of_nat (length out))) as [H1|H1]; cbn [andb];
    try (right; split; [lia | reflexivity]).
  left. split; [lia|].
  destruct (nth_error r (Z.to_nat idx)) as [v|] eqn:E.
  - exists v. split; reflexivity.
  - apply nth_error_None in E. lia.
Qed.

Lemma assign_result_length r bsz out t out' :
  assign_result A r bsz out t = Some out' -> length out' = length out.
Proof.
  unfold assign_result. destruct (_ && _); [|intros [= <-]; reflexivity].
  destruct (nth_error _ _); [|discriminate]. intros [= <-]. apply upd_length.
Qed.

(* threads whose global id is not below the output size write nothing *)
Lemma out_of_range_thread_writes_nothing r bsz out t :
  zlen out <= thread_offset (fst t) (snd t) bsz -> assign_result A r bsz out t = Some out.
Proof.
  intros H. unfold assign_result.
  destruct (Z.ltb_spec (thread_offset (fst t) (snd t) bsz) (zlen out)); [lia|].
  rewrite andb_false_r. reflexivity.
Qed.

Lemma launch_cons r bsz t sched out :
  launch A r bsz (t :: sched) out =
  match assign_result A r bsz out t with Some o => launch A r bsz sched o | None => None end.
Proof.
  unfold launch. cbn [fold_left step]. destruct (assign_result A r bsz out t); [reflexivity|].
  induction sched; cbn [fold_left step]; auto.
Qed.

(* invariant: a cell is final once a thread owning it has run, untouched before; the launch never
   reaches the undefined read when the result is at least as large as the output *)
Lemma launch_cells r bsz sched : forall out, (length out <= length r)%nat ->
  exists out', launch A r bsz sched out = Some out' /\ length out' = length out /\
    forall j, (j < length out)%nat ->
      nth_error out' j = if existsb (hits bsz (Z.of_nat j)) sched then nth_error r j else nth_error out j.
Proof.
  induction sched as [|t sched IH]; intros out Hl.
  - exists out. split; [reflexivity|]. split; [reflexivity|]. intros j Hj. reflexivity.
  - rewrite launch_cons.
    destruct (assign_result_cases r bsz out t Hl) as [[Hr [v [Hv ->]]] | [Hr ->]].
    + set (k := Z.to_nat (thread_offset (fst t) (snd t) bsz)) in *.
      assert (Hk : (k < length out)%nat) by (unfold zlen in Hr; lia).
      destruct (IH (upd out k v)) as [out' [HL [Hlen Hc]]]; [rewrite upd_length; exact Hl|].
      exists out'. split; [exact HL|]. rewrite upd_length in Hlen. split; [exact Hlen|].
      intros j Hj. rewrite Hc by (rewrite upd_length; exact Hj).
      cbn [existsb]. unfold hits at 2.
      rewrite nth_error_upd by exact Hk.
      destruct (Z.eqb_spec (thread_offset (fst t) (snd t) bsz) (Z.of_nat j)) as [E|E]; cbn [orb].
      * assert (j = k) as -> by lia. rewrite Nat.eqb_refl.
        destruct (existsb _ sched); [reflexivity | symmetry; exact Hv].
      * destruct (Nat.eqb_spec j k) as [->|Hne]; [lia | reflexivity].
    + destruct (IH out Hl) as [out' [HL [Hlen Hc]]].
      exists out'. split; [exact HL|]. split; [exact Hlen|].
      intros j Hj. rewrite Hc by exact Hj. cbn [existsb]. unfold hits at 2.
      destruct (Z.eqb_spec (thread_offset (fst t) (snd t) bsz) (Z.of_nat j)) as [E|E]; cbn [orb]; [|reflexivity].
      unfold zlen in Hr. lia.
Qed.

Lemma launch_eq_cells_spec r bsz sched out : (length out <= length r)%nat ->
  exists out', launch A r bsz sched out = Some out' /\ map Some out' = cells_spec A r bsz sched out.
Proof.
  intros Hl. destruct (launch_cells r bsz sched out Hl) as [out' [HL [Hlen Hc]]].
  exists out'. split; [exact HL|]. unfold cells_spec.
  apply nth_error_ext; [now rewrite !map_length, seq_length|].
  intros j Hj. rewrite map_length, Hlen in Hj.
  rewrite nth_error_map.
  rewrite (nth_error_map _ j (seq 0 (length out))).
  rewrite (nth_error_nth' (seq 0 (length out)) 0%nat) by (rewrite seq_length; exact Hj).
  rewrite seq_nth by exact Hj. cbn [option_map Nat.add].
  rewrite <- Hc by exact Hj.
  destruct (nth_error out' j) eqn:E; [reflexivity|]. apply nth_error_None in E. lia.
Qed.

Lemma covers_existsb bsz sched n k : covers bsz sched n -> (k < n)%nat ->
  existsb (hits bsz (Z.of_nat k)) sched = true.
Proof.
  intros Hc Hk. destruct (Hc k Hk) as [t [Hin Ht]]. apply existsb_exists. exists t. split; [exact Hin|].
  unfold hits. now apply Z.eqb_eq.
Qed.

Lemma coversb_covers bsz sched n : coversb bsz sched n = true <-> covers bsz sched n.
Proof.
  unfold coversb, covers. rewrite forallb_forall. split.
  - intros H k Hk. specialize (H (Z.of_nat k)). rewrite in_zs in H. specialize (H ltac:(lia)).
    apply existsb_exists in H as [t [Hin Ht]]. exists t. split; [exact Hin|]. unfold hits in Ht. lia.
  - intros H z Hz. apply in_zs in Hz. specialize (H (Z.to_nat z) ltac:(lia)). destruct H as [t [Hin Ht]].
    apply existsb_exists. exists t. split; [exact Hin|]. unfold hits. apply Z.eqb_eq. lia.
Qed.

(* ANY covering schedule — any order, duplicates, extra threads, any block size — yields the result *)
Lemma kernel_schedule_independent r bsz sched out :
  length r = length out -> covers bsz sched (length out) -> launch A r bsz sched out = Some r.
Proof.
  intros Hlen Hc. destruct (launch_cells r bsz sched out ltac:(lia)) as [out' [HL [Hl' Hcell]]].
  rewrite HL. f_equal. apply nth_error_ext; [congruence|].
  intros j Hj. rewrite Hl' in Hj. rewrite Hcell by exact Hj.
  rewrite (covers_existsb bsz sched (length out) j Hc Hj). reflexivity.
Qed.

(* two covering schedules give the same buffer, whatever the initial contents *)
Lemma kernel_schedule_irrelevant r bsz1 bsz2 s1 s2 out1 out2 :
  length r = length out1 -> length r = length out2 ->
  covers bsz1 s1 (length out1) -> covers bsz2 s2 (length out2) ->
  launch A r bsz1 s1 out1 = launch A r bsz2 s2 out2.
Proof.
  intros H1 H2 C1 C2. rewrite (kernel_schedule_independent r bsz1 s1 out1), (kernel_schedule_independent r bsz2 s2 out2); auto.
Qed.

End KernelProofs.

(* ---------- the launches the contexts issue cover the output ---------- *)

Lemma in_grid_schedule grid bsz t b :
  0 <= grid -> 0 <= bsz -> In (t, b) (grid_schedule grid bsz) <-> 0 <= b < grid /\ 0 <= t < bsz.
Proof.
  intros Hg Hb. unfold grid_schedule, zrange. rewrite in_flat_map. split.
  - intros [b' [Hb' Hin]]. apply in_map_iff in Hin as [t' [E Ht']]. inversion E; subst.
    apply in_zs in Hb'. apply in_zs in Ht'. lia.
  - intros [H1 H2]. exists b. split; [apply in_zs; lia|]. apply in_map_iff. exists t. split; [reflexivity|].
    apply in_zs. lia.
Qed.

Lemma grid_schedule_covers grid bsz n :
  1 <= bsz -> 0 <= grid -> Z.of_nat n <= grid * bsz -> covers bsz (grid_schedule grid bsz) n.
Proof.
  intros Hb Hg Hn k Hk. exists (Z.of_nat k mod bsz, Z.of_nat k / bsz). split.
  - apply in_grid_schedule; try lia. split.
    + split; [apply Z.div_pos; lia|]. apply Z.div_lt_upper_bound; nia.
    + apply Z.mod_pos_bound. lia.
  - cbn [fst snd]. unfold thread_offset. pose proof (Z.div_mod (Z.of_nat k) bsz ltac:(lia)). lia.
Qed.

Lemma covers_incl bsz s1 s2 n : incl s1 s2 -> covers bsz s1 n -> covers bsz s2 n.
Proof. intros Hi Hc k Hk. destruct (Hc k Hk) as [t [Hin Ht]]. exists t. split; [apply Hi; exact Hin | exact Ht]. Qed.

Lemma covers_perm bsz s1 s2 n : Permutation s1 s2 -> covers bsz s1 n -> covers bsz s2 n.
Proof. intros HP. apply covers_incl. intros x Hx. eapply Permutation_in; eauto. Qed.

Lemma ceil_div_ge n w : 1 <= w -> 0 <= n -> n <= thread_size n w.
Proof.
  intros Hw Hn. unfold thread_size, ceil_div.
  pose proof (Z.div_mod (n + w - 1) w ltac:(lia)) as E. pose proof (Z.mod_pos_bound (n + w - 1) w ltac:(lia)). nia.
Qed.

Lemma thread_size_lt n w : 1 <= w -> 0 <= n -> thread_size n w < n + w.
Proof.
  intros Hw Hn. unfold thread_size, ceil_div.
  pose proof (Z.div_mod (n + w - 1) w ltac:(lia)) as E. pose proof (Z.mod_pos_bound (n + w - 1) w ltac:(lia)). nia.
Qed.

Lemma geometry_covers n w : 1 <= w -> 0 <= n ->
  n <= fst (cuda_grid n w) * snd (cuda_grid n w) /\ n <= fst (sycl_grid n w) * snd (sycl_grid n w)
  /\ fst (sycl_grid n w) * snd (sycl_grid n w) < n + w.
Proof.
  intros Hw Hn. cbn [cuda_grid sycl_grid fst snd]. pose proof (ceil_div_ge n w Hw Hn). pose proof (thread_size_lt n w Hw Hn).
  unfold thread_size in *. split; [nia|]. split; lia.
Qed.

(* ---------- rebuilding an operand from its raw (pointer, shape, dim) triple ---------- *)

Lemma map_nth_error_seq {A} (l : list A) : map (nth_error l) (seq 0 (length l)) = map Some l.
Proof.
  induction l as [|a l IH]; [reflexivity|]. cbn [length seq map nth_error]. f_equal.
  rewrite <- seq_shift, map_map. exact IH.
Qed.

Lemma rebuild_roundtrip {A} (data : list A) shape_ptr dim :
  let shape := firstn (Z.to_nat dim) shape_ptr in
  pos shape -> zlen data = prod shape ->
  create_array_elems A data shape_ptr dim = (shape, map Some data).
Proof.
  intros shape Hp Hl. unfold create_array_elems, create_vector. fold shape. f_equal.
  rewrite <- (ndindex_is_lex_enum shape Hp), map_map.
  unfold ndindex_size, ndindex. rewrite product_eq_prod. rewrite <- Hl. unfold zlen, zrange, zs.
  rewrite Nat2Z.id, map_map. rewrite <- map_nth_error_seq.
  apply map_ext_in. intros k Hk. apply in_seq in Hk.
  rewrite off_unrav by (try exact Hp; unfold zlen in Hl; lia). now rewrite Nat2Z.id.
Qed.
