(* Kernel.v — C13: the per-thread body of the device kernels (eval/kernel_helper.hpp) and the
   launch arithmetic of the contexts, as an executable model, plus the property's reference (Spec).

   C++ anchors
     compute_offset(thread_id, block_id, block_size)      kernel_helper.hpp:149-155
     assign_result(output, result, tid, bid, bsz)         kernel_helper.hpp:157-191
     create_vector / create_array / create_mutable_array  kernel_helper.hpp:84-129
     launch geometry                                      cuda/context.hpp:263-269, hip/context.hpp:270-273,
                                                          sycl/context.hpp:466-483, opencl/context.hpp:477-478
   The result [r] of  functional::apply(f, operands)  is a pure function of the operands, the same
   for every thread; here it is its flattened element list.  What [f] and [operands] are is C14's
   business (Functor.v).  Thread / block ids are size_t: non-negative integers (64-bit wrap-around of
   bid*bsz+tid is not modelled: ids here stay far below 2^64). *)
From NM Require Import Base Index.
Local Open Scope Z_scope.

(* ---------- Model ---------- *)

(* compute_offset: only the x components are used *)
Definition thread_offset (tid bid bsz : Z) : Z := bid * bsz + tid.

Section Kernel.
Variable A : Type.

(* one thread.  [out] is the flat output buffer (size(output) = its length), [r] the flat result.
   None = the thread reads flat_rhs(idx) outside the result (undefined behaviour in the C++; only
   possible when the result is smaller than the output, which the evaluators exclude by comparing
   shapes before the launch). *)
Definition assign_result (r : list A) (bsz : Z) (out : list A) (t : Z * Z) : option (list A) :=
  let idx := thread_offset (fst t) (snd t) bsz in
  if (0 <=? idx) && (idx <? zlen out) then
    match nth_error r (Z.to_nat idx) with
    | Some v => Some (upd out (Z.to_nat idx) v)
    | None => None
    end
  else Some out.

Definition step (r : list A) (bsz : Z) (st : option (list A)) (t : Z * Z) : option (list A) :=
  match st with Some out => assign_result r bsz out t | None => None end.

(* a launch: ANY list of (thread id, block id) pairs, run one after the other *)
Definition launch (r : list A) (bsz : Z) (sched : list (Z * Z)) (out : list A) : option (list A) :=
  fold_left (step r bsz) sched (Some out).

(* the cell a thread writes, if any (what the driver observes per thread) *)
Definition thread_write (bsz n : Z) (t : Z * Z) : option Z :=
  let idx := thread_offset (fst t) (snd t) bsz in
  if (0 <=? idx) && (idx <? n) then Some idx else None.

(* create_array(data_ptr, shape_ptr, dim): reshape(ref(data_ptr, product shape), shape), read in
   row-major order through compute_offset/compute_strides (Index.v) *)
Definition create_vector (ptr : list Z) (dim : Z) : list Z := firstn (Z.to_nat dim) ptr.
Definition create_array_elems (data : list A) (shape_ptr : list Z) (dim : Z) : list Z * list (option A) :=
  let shape := create_vector shape_ptr dim in
  (shape, map (fun i => nth_error data (Z.to_nat (compute_offset i (compute_strides shape)))) (lex_enum shape)).

(* ---------- Spec ---------- *)

(* the schedule covers the output: every cell's thread occurs at least once *)
Definition hits (bsz k : Z) (t : Z * Z) : bool := thread_offset (fst t) (snd t) bsz =? k.
Definition covers (bsz : Z) (sched : list (Z * Z)) (n : nat) : Prop :=
  forall k, (k < n)%nat -> exists t, In t sched /\ thread_offset (fst t) (snd t) bsz = Z.of_nat k.
Definition coversb (bsz : Z) (sched : list (Z * Z)) (n : nat) : bool :=
  forallb (fun k => existsb (hits bsz k) sched) (zs n).

(* cell by cell: final value where some thread of the schedule owns the cell, untouched elsewhere *)
Definition cells_spec (r : list A) (bsz : Z) (sched : list (Z * Z)) (out : list A) : list (option A) :=
  map (fun k => if existsb (hits bsz (Z.of_nat k)) sched then nth_error r k else nth_error out k)
      (seq 0 (length out)).

End Kernel.

(* ---------- launch geometry ---------- *)

(* size_t(ceil(float(n)/w)) * w  — exact for n < 2^24 (float has a 24-bit significand) *)
Definition ceil_div (n w : Z) : Z := (n + w - 1) / w.
Definition thread_size (n w : Z) : Z := ceil_div n w * w.
(* CUDA/HIP: <<<thread_size, warp_size>>> = thread_size BLOCKS of warp_size threads *)
Definition cuda_grid (n w : Z) : Z * Z := (thread_size n w, w).
(* SYCL nd_range(thread_size, warp_size), OpenCL global/local: thread_size work items in groups of w *)
Definition sycl_grid (n w : Z) : Z * Z := (ceil_div n w, w).

(* all threads of a (grid, block) launch, block after block *)
Definition grid_schedule (grid bsz : Z) : list (Z * Z) :=
  flat_map (fun b => map (fun t => (t, b)) (zrange bsz)) (zrange grid).
