(* Eval.v — model of the default evaluator of include/nmtools/array/eval.hpp
   (evaluator_t<view_t,none_t,resolver_t>, lines 130-205) and of what "a view" is
   for it: a shape and an element function.  The evaluator
     - compares shape(output) with shape(view) by utils::isequal and RETURNS
       WITHOUT WRITING when they differ (eval.hpp:153),
     - otherwise, for i = 0 .. ndindex(inp_shape).size()-1, performs
         apply_at(output, out_index[i]) = apply_at(view, inp_index[i])
       where both index objects are ndindex over (equal) shapes and apply_at on an
       ndarray goes through the array's offset functor (row- or column-major).
   operator()() first default-constructs the resolved output type and, when it is
   resizable, resizes it to the view's shape (detail::apply_resize). *)
From NM Require Import Base Index.
Local Open Scope Z_scope.

Section Eval.
Context {A : Type}.

Record view := { vshape : list Z; vget : list Z -> A }.

(* an array object: layout, shape, flat buffer (Index.ndarray_get / ndarray_set) *)
Record arr := { alayout : layout; ashape : list Z; abuf : list A }.

Fixpoint list_eqb (a b : list Z) : bool :=
  match a, b with
  | [], [] => true
  | x :: a', y :: b' => (x =? y) && list_eqb a' b'
  | _, _ => false
  end.

(* the loop of evaluator_t::operator()(output&) *)
Definition eval_loop (v : view) (L : layout) (oshape : list Z) (buf : list A) : list A :=
  fold_left (fun b k => ndarray_set L oshape b (ndindex oshape k) (vget v (ndindex (vshape v) k)))
            (zrange (ndindex_size (vshape v))) buf.

Definition eval_into (v : view) (out : arr) : arr :=
  if list_eqb (ashape out) (vshape v)
  then {| alayout := alayout out; ashape := ashape out;
          abuf := eval_loop v (alayout out) (ashape out) (abuf out) |}
  else out.                                        (* silently skipped *)

(* operator()(): a resizable result is resized to the view's shape first; [resize]
   is the result kind's resize (returns the new object, or the old one when refused) *)
Definition eval_default (v : view) (resize : arr -> list Z -> arr) (init : arr) : arr :=
  eval_into v (resize init (vshape v)).

(* a freshly resized dynamic array: the requested shape, a buffer of that many cells *)
Definition fresh (L : layout) (d : A) (s : list Z) : arr :=
  {| alayout := L; ashape := s; abuf := repeat d (Z.to_nat (prod s)) |}.

(* reading an array as a view again (what an outer operation does with a
   materialised operand) *)
Definition view_of (d : A) (a : arr) : view :=
  {| vshape := ashape a;
     vget := fun i => match ndarray_get (alayout a) (ashape a) (abuf a) i with Some x => x | None => d end |}.

(* an outer operation that only reads its operand through element access at
   indices it derives from the output index: shape d, source index map g *)
Definition remap (d : list Z) (g : list Z -> list Z) (v : view) : view :=
  {| vshape := d; vget := fun j => vget v (g j) |}.

(* ---------- Spec: the buffer a row-/column-major array with the view's
   elements must have, written without ndindex / strides ---------- *)
Definition spec_buffer (L : layout) (v : view) : list A :=
  match L with
  | RowMajor => map (vget v) (lex_enum (vshape v))
  | ColMajor => map (fun j => vget v (rev j)) (lex_enum (rev (vshape v)))
  end.

End Eval.
Arguments view : clear implicits.
Arguments arr : clear implicits.

(* n-ary outer operation: output shape d, one source index map per operand, a
   combining function on the operands' elements (ufunc, matmul's sum of products ...) *)
Definition remapn {A} (d : list Z) (gs : list (list Z -> list Z)) (f : list A -> A) (vs : list (view A)) : view A :=
  {| vshape := d; vget := fun j => f (map (fun gv => vget (snd gv) (fst gv j)) (combine gs vs)) |}.
Definition materialise {A} (L : layout) (d0 : A) (v : view A) : view A :=
  view_of d0 (eval_into v (fresh L d0 (vshape v))).
