(* Properties_C15.v — C15: invalid arguments are reported as 'Nothing', never as garbage or a crash.
   Statements only.  `st_X` is the accept / reject / trap status of the faithful model of X,
   `np_status (np_X_ok ..)` is Accept exactly when NumPy accepts. *)
From NM Require Import Base Index Broadcast Views Select Linalg Accept AcceptProofs.
Local Open Scope Z_scope.

(* broadcasting: Nothing exactly when the shapes are incompatible, never a trap *)
Theorem C15_broadcast_shape_iff : forall a b, pos a -> pos b ->
  st_broadcast_shape a b = np_status (np_broadcast_ok a b).
Proof. exact st_broadcast_shape_iff. Qed.
Print Assumptions C15_broadcast_shape_iff.

Theorem C15_broadcast_to_iff : forall a b, st_broadcast_to a b = np_status (np_broadcast_to_ok a b).
Proof. exact st_broadcast_to_iff. Qed.
Print Assumptions C15_broadcast_to_iff.

(* reshape: Nothing exactly for a mismatching element count, more than one -1, a zero or negative
   extent, an inferred extent that does not divide (after the repair of shape_reshape) *)
Theorem C15_reshape_iff : forall src dst, pos src -> prod src < 2 ^ 64 -> dst <> [] ->
  prod (np_known dst) < 2 ^ 64 -> st_reshape src dst = np_status (np_reshape_ok src dst).
Proof. exact st_reshape_iff. Qed.
Print Assumptions C15_reshape_iff.

(* normalize_axis: a value exactly for -ndim <= axis < ndim *)
Theorem C15_normalize_axis_iff : forall a n, st_normalize_axis a n = np_status (np_axis_ok a n).
Proof.
  intros a n. unfold st_normalize_axis, np_axis_ok, status_of_option, np_status, Views.normalize_axis.
  destruct (a <? - n) eqn:E1; destruct (n <=? a) eqn:E2; cbn;
    destruct (- n <=? a) eqn:E3; destruct (a <? n) eqn:E4; cbn; try reflexivity; lia.
Qed.
Print Assumptions C15_normalize_axis_iff.

(* matmul operand shapes (index::shape_matmul): Nothing exactly when NumPy raises *)
Theorem C15_matmul_shape_iff : forall a b, (1 <= length a)%nat -> (1 <= length b)%nat -> pos a -> pos b ->
  st_matmul_shape a b = np_status (np_matmul_ok a b).
Proof. exact st_matmul_shape_iff. Qed.
Print Assumptions C15_matmul_shape_iff.

(* an empty optional fed into any further stage stays empty, and no later stage is ever applied *)
Theorem C15_nothing_propagates : forall (V : Type) (fs1 : list (@stage V)) f fs2 o,
  (forall x, run_pipeline fs1 o = Some x -> f x = None) ->
  run_pipeline (fs1 ++ f :: fs2) o = None
  /\ (length (called (fs1 ++ f :: fs2) o) <= length fs1 + 1)%nat.
Proof. intros V. exact (@nothing_propagates V). Qed.
Print Assumptions C15_nothing_propagates.

(* ... and never dereferenced: a stage is only ever called on a present value produced by its predecessors *)
Theorem C15_never_dereferenced : forall (V : Type) (fs : list (@stage V)) o f x, In (f, x) (called fs o) ->
  exists k, (k < length fs)%nat /\ nth_error fs k = Some f /\ run_pipeline (firstn k fs) o = Some x.
Proof. intros V. exact (@called_on_present V). Qed.
Print Assumptions C15_never_dereferenced.

(* ---------- where the code does NOT report invalid arguments (faithful model, witnesses) ---------- *)
(* transpose validates nothing: duplicate axes are accepted, an out-of-range axis or a wrong number of axes is read out of range *)
Theorem C15_transpose_refuted :
  st_transpose [0;0] [2;3] = SAccept /\ np_transpose_ok 2 (Some [0;0]) = false
  /\ st_transpose [0;2] [2;3] = STrap /\ np_transpose_ok 2 (Some [0;2]) = false
  /\ st_transpose [0] [2;3] = STrap /\ np_transpose_ok 2 (Some [0]) = false.
Proof. repeat split. Qed.
Print Assumptions C15_transpose_refuted.

(* pad accepts negative widths; repeat with an out-of-range axis reads out of range; expand_dims / swapaxes
   with an out-of-range axis are undefined instead of Nothing *)
Theorem C15_pad_repeat_axes_refuted :
  st_pad [2;3] [1;1;1;-1] = SAccept /\ np_pad_ok [2;3] [1;1;1;-1] = false
  /\ st_repeat [2;3] 2 5 = STrap /\ np_repeat_ok [2;3] 2 5 = false
  /\ st_expand_dims 5 [2;3] = STrap /\ st_swapaxes 0 5 [2;3] = STrap.
Proof. repeat split. Qed.
Print Assumptions C15_pad_repeat_axes_refuted.

Example C15_nonvacuous :
  st_reshape [2;3] [3;2] = SAccept /\ st_reshape [2;3] [4;2] = SReject /\ st_reshape [2;3] [-1;-1] = SReject
  /\ st_reshape [2;3] [0;-1] = SReject /\ st_reshape [2;3] [-2;-3] = SReject
  /\ st_broadcast_shape [2;3] [3;2] = SReject /\ st_matmul_shape [2;3] [2;3] = SReject /\ st_matmul_shape [2;3] [3;4] = SAccept
  /\ st_concat_shape [2;3] [2;4] 0 = SReject /\ st_concat_shape [2;3] [2;4] 1 = SAccept
  /\ st_roll [2;3] 5 = SReject /\ st_resize [2;3] [4] = SReject.
Proof. repeat split. Qed.
