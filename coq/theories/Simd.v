(* Simd.v — C12: executable model of the SIMD evaluator
   (include/nmtools/array/eval/simd/evaluator/ufunc.hpp and index/ufunc.hpp) and the Spec it is
   compared with.

   Memory is [list A]; a packed load/store of [N] lanes at offset [o] is defined only when
   [o + N <= length m] — otherwise the outcome is [None] (= undefined behaviour: the raw pointer
   would be dereferenced outside its buffer).  The lane operation of a context is modelled as the
   N-lane map of the scalar operation [f] (NOT verified against the intrinsics: trusted, see
   notes/C12.md).  Index arithmetic is on [nat]: every C++ subtraction that could wrap sits in a
   branch where the model does not use its value (remarks at each place).

   Model = faithful image, branch for branch; Spec = map / broadcast rule / fold, written without
   lanes, tags or offsets. *)
From Coq Require Import List Arith Lia Bool PeanoNat.
Import ListNotations.
Set Implicit Arguments.

(* index/common.hpp: enum SIMD.  [PAD k] is static_cast<SIMD>(k), 1 <= k <= N-1 *)
Inductive tag := PACKED | BROADCAST | SCALAR | PAD (k : nat) | ACCUMULATE | ACCUMULATE_PACKED | NOP.

Definition tag_eqb (a b : tag) : bool :=
  match a, b with
  | PACKED, PACKED | BROADCAST, BROADCAST | SCALAR, SCALAR | ACCUMULATE, ACCUMULATE
  | ACCUMULATE_PACKED, ACCUMULATE_PACKED | NOP, NOP => true
  | PAD j, PAD k => j =? k
  | _, _ => false
  end.

Definition obind {X Y} (o : option X) (k : X -> option Y) : option Y :=
  match o with Some x => k x | None => None end.

Definition map2 {X Y Z} (g : X -> Y -> Z) (a : list X) (b : list Y) : list Z :=
  map (fun p => g (fst p) (snd p)) (combine a b).

Fixpoint prodn (s : list nat) : nat := match s with [] => 1 | n :: t => n * prodn t end.

(* row-major strides (index::compute_strides) and index::compute_indices on nat *)
Fixpoint stridesn (s : list nat) : list nat :=
  match s with [] => [] | _ :: t => prodn t :: stridesn t end.
Definition unraveln (i : nat) (s : list nat) : list nat :=
  map (fun p => (i / snd p) mod fst p) (combine s (stridesn s)).
Definition list_eqb (a b : list nat) : bool :=
  (length a =? length b) && forallb (fun p => fst p =? snd p) (combine a b).
Definition lastn (s : list nat) : nat := last s 0.
Definition set_last (s : list nat) (v : nat) : list nat := removelast s ++ [v].

Section Simd.
Variable A : Type.
Variable N : nat.          (* lanes per pack: bit_width / (8 * sizeof(element)) *)

Definition loadu (m : list A) (o : nat) : option (list A) :=
  if o + N <=? length m then Some (firstn N (skipn o m)) else None.
Definition storeu (m : list A) (o : nat) (v : list A) : option (list A) :=
  if o + length v <=? length m then Some (firstn o m ++ v ++ skipn (o + length v) m) else None.
Definition load1 (m : list A) (o : nat) : option A := nth_error m o.
Definition store1 (m : list A) (o : nat) (x : A) : option (list A) := storeu m o [x].
Definition set1 (x : A) : list A := repeat x N.
(* scalar reads of [k] consecutive cells *)
Definition loadk (m : list A) (o k : nat) : option (list A) :=
  if o + k <=? length m then Some (firstn k (skipn o m)) else None.

(* ------------------------------------------------------------------ eval_unary (ufunc.hpp:38-86) *)
Section Unary.
Variable f : A -> A.

(* for (i=0; i+N<=size; i+=N) storeu(out+i, op(loadu(inp+i))) *)
Fixpoint packed1 (fuel i size : nat) (inp out : list A) : option (list A) :=
  match fuel with
  | O => Some out
  | S fu => if i + N <=? size
            then obind (loadu inp i) (fun a =>
                 obind (storeu out i (map f a)) (fun out' => packed1 fu (i + N) size inp out'))
            else Some out
  end.
(* for (i=M*N; i<size; i++) out[i] = op(inp[i]) *)
Fixpoint tail1 (cnt i : nat) (inp out : list A) : option (list A) :=
  match cnt with
  | O => Some out
  | S c => obind (load1 inp i) (fun a => obind (store1 out i (f a)) (fun out' => tail1 c (S i) inp out'))
  end.
(* [mem] = what nmtools::data() points to (storage order), [logical] = the elements in row-major
   index order, which is what apply_at(view, ndindex[i]) reads in the tail.  For a row-major operand
   the two coincide; other layouts no longer reach this loop (layout guard, see eval_unary_top): the
   split form is kept to state why the guard is needed (Example C12_layout_guard_needed). *)
Definition eval_unary_gen (mem logical out : list A) : option (list A) :=
  let size := length logical in
  let M := size / N in
  obind (packed1 size 0 size mem out) (fun out' => tail1 (size - M * N) (M * N) logical out').
Definition eval_unary (inp out : list A) : option (list A) := eval_unary_gen inp inp out.
End Unary.

(* The packed lanes apply the context's LANE function [g] (an intrinsic / builtin composition, e.g.
   relu = max(x,0), relu6 = max(min(x,6),0)), the scalar tail applies the view's functor [f].  The
   theorems are about g = f; the correspondence probes g against f per (context, dtype, op), and where
   they are known to differ (-0.0 / NaN under relu6, the zero tie of fmax) the model predicts the exact
   lane result (Section LaneMax below). *)
Definition eval_unary_lane (g f : A -> A) (inp out : list A) : option (list A) :=
  let size := length inp in
  let M := size / N in
  obind (packed1 g size 0 size inp out) (fun out' => tail1 f (size - M * N) (M * N) inp out').

(* ------------------------------------------------------------------ eval_binary *)
Section Binary.
Variable f : A -> A -> A.

Fixpoint packed2 (fuel i size : nat) (lhs rhs out : list A) : option (list A) :=
  match fuel with
  | O => Some out
  | S fu => if i + N <=? size
            then obind (loadu lhs i) (fun a => obind (loadu rhs i) (fun b =>
                 obind (storeu out i (map2 f a b)) (fun out' => packed2 fu (i + N) size lhs rhs out')))
            else Some out
  end.
Fixpoint tail2 (cnt i : nat) (lhs rhs out : list A) : option (list A) :=
  match cnt with
  | O => Some out
  | S c => obind (load1 lhs i) (fun a => obind (load1 rhs i) (fun b =>
           obind (store1 out i (f a b)) (fun out' => tail2 c (S i) lhs rhs out')))
  end.
(* SAME_SHAPE arm (ufunc.hpp:428-444); size = number of elements of the view *)
Definition eval_binary_same_gen (size : nat) (lmem rmem llog rlog out : list A) : option (list A) :=
  let M := size / N in
  obind (packed2 size 0 size lmem rmem out) (fun out' => tail2 (size - M * N) (M * N) llog rlog out').
Definition eval_binary_same (size : nat) (lhs rhs out : list A) : option (list A) :=
  eval_binary_same_gen size lhs rhs lhs rhs out.

(* ---- index/ufunc.hpp:14-40  binary_2d_simd_shape (2-d shapes as pairs (rows, cols)) *)
Definition binary_2d_simd_shape (out_shape lhs_shape rhs_shape : nat * nat) : nat * nat :=
  let lhs_rows := fst lhs_shape in
  let rhs_rows := fst rhs_shape in
  let out_cols := snd out_shape in
  let n_packed := out_cols / N in
  ((if rhs_rows =? 1 then lhs_rows else rhs_rows), n_packed + out_cols mod N).

Definition entry3 := ((tag * nat) * (tag * nat) * (tag * nat))%type.   (* res, lhs, rhs *)

(* one operand of binary_2d_simd (ufunc.hpp:69-95; the lhs and rhs blocks are the same text) *)
Definition b2d_operand (is_scalar_res : bool) (simd_row simd_col out_cols op_rows op_cols : nat) : tag * nat :=
  let is_scalar_op := is_scalar_res && (op_cols / N <=? simd_col) in
  let is_broadcast_op := op_cols =? 1 in
  let rowsgt1 := if 1 <? op_rows then 1 else 0 in
  if is_scalar_op then
    let n_packed := op_cols / N in
    (* simd_col - n_packed: no wrap, is_scalar_op gives n_packed <= simd_col *)
    (SCALAR, if op_cols =? 1 then simd_row * rowsgt1
             else n_packed * N + (simd_col - n_packed) + simd_row * out_cols * rowsgt1)
  else if is_broadcast_op then (BROADCAST, simd_row * rowsgt1)
  else (PACKED, simd_col * N + simd_row * out_cols * rowsgt1).

(* index/ufunc.hpp:42-100 *)
Definition binary_2d_simd (simd_row simd_col : nat) (out_shape lhs_shape rhs_shape : nat * nat) : entry3 :=
  let out_cols := snd out_shape in
  let n_packed := out_cols / N in
  let is_scalar_res := n_packed <=? simd_col in
  (* scalar_res_idx is computed unconditionally in C++ (wraps when not scalar) but only used when scalar *)
  let scalar_res_idx := n_packed * N + (simd_col - n_packed) + simd_row * out_cols in
  let packed_res_idx := simd_col * N + simd_row * out_cols in
  let r := b2d_operand is_scalar_res simd_row simd_col out_cols (fst rhs_shape) (snd rhs_shape) in
  let l := b2d_operand is_scalar_res simd_row simd_col out_cols (fst lhs_shape) (snd lhs_shape) in
  ((if is_scalar_res then (SCALAR, scalar_res_idx) else (PACKED, packed_res_idx)), l, r).

(* binary_2d_simd_enumerator_t: size() and operator[] *)
Definition b2d_size (out_shape lhs_shape rhs_shape : nat * nat) : nat :=
  let s := binary_2d_simd_shape out_shape lhs_shape rhs_shape in fst s * snd s.
Definition b2d_at (out_shape lhs_shape rhs_shape : nat * nat) (i : nat) : entry3 :=
  let simd_cols := snd (binary_2d_simd_shape out_shape lhs_shape rhs_shape) in
  binary_2d_simd (i / simd_cols) (i mod simd_cols) out_shape lhs_shape rhs_shape.
Definition b2d_entries (out_shape lhs_shape rhs_shape : nat * nat) : list entry3 :=
  map (b2d_at out_shape lhs_shape rhs_shape) (seq 0 (b2d_size out_shape lhs_shape rhs_shape)).

(* the loop body of the BROADCASTED_2D arm (ufunc.hpp:449-474) *)
Definition vec_of (m : list A) (t : tag) (o : nat) : option (list A) :=
  match t with PACKED => loadu m o | _ => option_map set1 (load1 m o) end.
Definition b2d_step (lhs rhs : list A) (out : list A) (e : entry3) : option (list A) :=
  let '((ot, oo), (lt, lo), (rt, ro)) := e in
  match ot with
  | PACKED => obind (vec_of lhs lt lo) (fun a => obind (vec_of rhs rt ro) (fun b => storeu out oo (map2 f a b)))
  | _ => obind (load1 lhs lo) (fun a => obind (load1 rhs ro) (fun b => store1 out oo (f a b)))
  end.
Fixpoint run_steps {E} (step : list A -> E -> option (list A)) (es : list E) (out : list A) : option (list A) :=
  match es with [] => Some out | e :: t => obind (step out e) (run_steps step t) end.
Definition eval_binary_2d (out_shape lhs_shape rhs_shape : nat * nat) (lhs rhs out : list A) : option (list A) :=
  run_steps (b2d_step lhs rhs) (b2d_entries out_shape lhs_shape rhs_shape) out.

(* what an entry does, cell by cell: (output cell, lhs cell, rhs cell) *)
Definition cells_of (e : entry3) : list (nat * nat * nat) :=
  let '((ot, oo), (lt, lo), (rt, ro)) := e in
  match ot with
  | PACKED => map (fun t => (oo + t, (match lt with PACKED => lo + t | _ => lo end),
                                     (match rt with PACKED => ro + t | _ => ro end))) (seq 0 N)
  | _ => [(oo, lo, ro)]
  end.

(* the dispatch of eval_binary (ufunc.hpp:414-426).  [Refused] = the function returns false and
   operator()() (ufunc.hpp:479-490) ignores it: the caller gets the default-initialised output *)
Inductive outcome := Done (m : list A) | Refused | Undefined.
Definition of_opt (o : option (list A)) : outcome := match o with Some m => Done m | None => Undefined end.
Definition pair_of (s : list nat) : nat * nat := (nth 0 s 0, nth 1 s 0).
Definition eval_binary (out_shape lhs_shape rhs_shape : list nat) (lhs rhs out : list A) : outcome :=
  if list_eqb lhs_shape rhs_shape then of_opt (eval_binary_same (prodn out_shape) lhs rhs out)
  else if (length lhs_shape =? length rhs_shape) && (length rhs_shape =? 2)
  then of_opt (eval_binary_2d (pair_of out_shape) (pair_of lhs_shape) (pair_of rhs_shape) lhs rhs out)
  else Refused.
(* evaluator_t::operator()() (since fix "SIMD evaluator falls back to the default evaluator ..."): when the
   simd path refuses, the view is evaluated by evaluator_t<view,none_t> into the same output.  [scalar] is
   that evaluator's result (the very reference C12 compares with; its own correctness is C07/C08/C10). *)
Definition with_fallback (scalar : list A) (o : outcome) : outcome :=
  match o with Refused => Done scalar | _ => o end.
(* the layout guard at the head of every eval_* arm (since fix "SIMD evaluator leaves operands that are not
   row-major to the default evaluator"): [row_major] = is_row_major<T>() of the output and of every operand *)
Definition guard_layout (row_major : bool) (o : outcome) : outcome := if row_major then o else Refused.
Definition eval_binary_top (row_major : bool) (out_shape lhs_shape rhs_shape : list nat) (lhs rhs out scalar : list A) : outcome :=
  with_fallback scalar (guard_layout row_major (eval_binary out_shape lhs_shape rhs_shape lhs rhs out)).

(* ------------------------------------------------------------------ eval_outer (ufunc.hpp:94-169) *)
(* index/ufunc.hpp:300-327 outer_simd_shape; out_shape = lhs_shape ++ rhs_shape *)
Definition outer_simd_shape (out_shape : list nat) : list nat :=
  let n_ops := lastn out_shape in
  set_last out_shape (n_ops / N + (if n_ops mod N =? 0 then 0 else 1)).

Definition dotn (a b : list nat) : nat := fold_left Nat.add (map (fun p => fst p * snd p) (combine a b)) 0.

(* index/ufunc.hpp:329-412 outer_simd, given the unravelled simd index *)
Definition outer_simd (simd_index out_shape lhs_shape rhs_shape : list nat) : entry3 :=
  let n_ops := lastn out_shape in
  let n_packed_ops := n_ops / N in
  let s_j := lastn simd_index in
  let out_tag := if n_ops <? s_j * N + N then PAD (N - (n_ops - n_packed_ops * N)) else PACKED in
  (* compute_outer_simd_offset: all but the last axis *)
  let outer_offset := dotn (removelast simd_index) (stridesn out_shape) in
  let out_offset := outer_offset + s_j * N in
  let lhs_dim := length lhs_shape in
  let rhs_dim := length rhs_shape in
  let lhs_offset :=
    match lhs_dim with
    | 1 => nth 0 simd_index 0
    | 2 => nth 0 simd_index 0 * nth 1 out_shape 0 + nth 1 simd_index 0
    | _ => dotn (firstn lhs_dim simd_index) (stridesn lhs_shape)
    end in
  let rhs_offset :=
    match rhs_dim with
    | 1 => s_j * N
    | 2 => nth (length simd_index - 2) simd_index 0 * lastn out_shape + s_j * N
    | _ => dotn (firstn (rhs_dim - 1) (skipn lhs_dim simd_index)) (stridesn rhs_shape) + s_j * N
    end in
  ((out_tag, out_offset), (BROADCAST, lhs_offset), (out_tag, rhs_offset)).

Definition outer_entries (lhs_shape rhs_shape : list nat) : list entry3 :=
  let out_shape := lhs_shape ++ rhs_shape in
  let simd_shape := outer_simd_shape out_shape in
  map (fun i => outer_simd (unraveln i simd_shape) out_shape lhs_shape rhs_shape) (seq 0 (prodn simd_shape)).

Definition outer_step (lhs rhs : list A) (out : list A) (e : entry3) : option (list A) :=
  let '((ot, oo), (_, lo), (_, ro)) := e in
  obind (load1 lhs lo) (fun a =>          (* op.set1(lhs_data_ptr[lhs_offset]) is read first, always *)
  match ot with
  | PACKED => obind (loadu rhs ro) (fun b => storeu out oo (map (f a) b))
  | PAD k => if (1 <=? k) && (k <=? N - 1)
             then obind (loadk rhs ro (N - k)) (fun b => storeu out oo (map (f a) b))
             else Some out
  | _ => Some out
  end).
Definition eval_outer (lhs_shape rhs_shape : list nat) (lhs rhs out : list A) : option (list A) :=
  run_steps (outer_step lhs rhs) (outer_entries lhs_shape rhs_shape) out.

(* ------------------------------------------------------------------ eval_reduction (ufunc.hpp:172-381) *)
Variable zero : A.        (* value of the lane fold on an empty register: unreachable, N >= 1 *)
Variable ident : A.       (* view.op.identity() when the op has one, else 0 *)

Definition hfold (reg : list A) : A :=      (* result = tmp[0]; for i in 1..N-1: result = op(result,tmp[i]) *)
  match reg with [] => zero | x :: t => fold_left f t x end.

Fixpoint full_packed (fuel i size : nat) (inp reg : list A) : option (list A) :=
  match fuel with
  | O => Some reg
  | S fu => if i + N <=? size
            then obind (loadu inp i) (fun a => full_packed fu (i + N) size inp (map2 f reg a))
            else Some reg
  end.
Fixpoint full_tail (cnt i : nat) (inp : list A) (acc : A) : option A :=
  match cnt with
  | O => Some acc
  | S c => obind (load1 inp i) (fun a => full_tail c (S i) inp (f acc a))
  end.
(* the out_size == 1 arm: the accumulator starts from set1(identity) (since fix "SIMD full reduction
   starts from the op's identity"; it was set1(0)) *)
Definition eval_reduce_full (size : nat) (inp : list A) : option A :=
  obind (full_packed size 0 size inp (set1 ident)) (fun reg =>
  full_tail (size - (size / N) * N) ((size / N) * N) inp (hfold reg)).

Inductive rkind := HORIZONTAL | VERTICAL.

(* index/ufunc.hpp:146-183 *)
(* [axis1] = number of iterations of "for (i=0; i<=(int)axis; i++)" = axis+1 (0 for a negative axis) *)
Definition reduction_nd_reshape (k : rkind) (shape : list nat) (axis1 : nat) : nat * nat :=
  let dim := length shape in
  if dim =? 1 then (1, nth 0 shape 0) else
  match k with
  | HORIZONTAL => (prodn (firstn (dim - 1) shape), nth (dim - 1) shape 0)
  | VERTICAL => (prodn (firstn axis1 shape), prodn (skipn axis1 shape))
  end.
(* index/ufunc.hpp:185-213 *)
Definition reduction_2d_shape (k : rkind) (inp2 : nat * nat) : nat * nat :=
  let '(rows, cols) := inp2 in
  match k with
  | HORIZONTAL => (rows, cols / N + (if cols mod N =? 0 then 0 else 1))
  | VERTICAL => (rows, cols / N + cols mod N)
  end.
Definition entry2 := ((tag * nat) * (tag * nat))%type.    (* out, inp *)
(* index/ufunc.hpp:223-272 *)
Definition reduction_2d (k : rkind) (si sj : nat) (out2 inp2 : nat * nat) : entry2 :=
  let n_ops := snd inp2 in
  let n_simd := n_ops / N in
  match k with
  | HORIZONTAL =>
      let n_rest := n_ops - n_simd * N in
      let inp_offset := si * n_ops in
      let inp_index := sj * N in
      let out_tag := if sj + 1 =? n_simd + (if n_rest =? 0 then 0 else 1) then ACCUMULATE else NOP in
      let inp_tag := if n_ops <? inp_index + N then PAD (N - n_rest) else PACKED in
      ((out_tag, si), (inp_tag, inp_offset + inp_index))
  | VERTICAL =>
      let inp_offset := si * snd inp2 in
      let out_offset := (si / (fst inp2 / fst out2)) * snd out2 in   (* len(out_shape) > 1 always: 2-d *)
      let rel_scalar_index := n_simd * N + (sj - n_simd) in
      let out_index := if n_ops <? sj * N then out_offset + rel_scalar_index else out_offset + sj * N in
      let inp_index := if n_ops <? sj * N then inp_offset + rel_scalar_index else inp_offset + sj * N in
      if sj * N + N <=? n_ops then ((ACCUMULATE_PACKED, out_index), (PACKED, inp_index))
      else ((ACCUMULATE, out_index), (SCALAR, inp_index))
  end.
Definition red_entries (k : rkind) (out2 inp2 : nat * nat) : list entry2 :=
  let s := reduction_2d_shape k inp2 in
  map (fun i => reduction_2d k (i / snd s) (i mod snd s) out2 inp2) (seq 0 (fst s * snd s)).

(* VERTICAL loop body (ufunc.hpp:277-297) *)
Definition vstep (inp : list A) (out : list A) (e : entry2) : option (list A) :=
  let '((ot, oo), (_, io)) := e in
  match ot with
  | ACCUMULATE_PACKED => obind (loadu inp io) (fun a => obind (loadu out oo) (fun b => storeu out oo (map2 f b a)))
  | ACCUMULATE => obind (load1 out oo) (fun b => obind (load1 inp io) (fun a => store1 out oo (f b a)))
  | _ => Some out
  end.
(* HORIZONTAL loop body (ufunc.hpp:299-353): state = (output memory, accum register) *)
Definition hstep (inp : list A) (st : list A * list A) (e : entry2) : option (list A * list A) :=
  let '(out, accum) := st in
  let '((ot, oo), (it, io)) := e in
  obind (match it with
         | PACKED => option_map (fun a => map2 f accum a) (loadu inp io)
         | PAD k => if (1 <=? k) && (k <=? N - 1)
                    then option_map (fun a => map2 f accum (a ++ repeat ident k)) (loadk inp io (N - k))
                    else Some accum
         | _ => Some accum
         end) (fun accum' =>
  match ot with
  | ACCUMULATE => option_map (fun out' => (out', set1 ident)) (store1 out oo (hfold accum'))
  | _ => Some (out, accum')
  end).
Fixpoint run_hsteps (inp : list A) (es : list entry2) (st : list A * list A) : option (list A * list A) :=
  match es with [] => Some st | e :: t => obind (hstep inp st e) (run_hsteps inp t) end.

(* per-axis arm: out is first filled with the identity.  [axis] is the stored attribute, a signed
   index written (negative?, magnitude); a negative axis gets the rank added (since fix "SIMD reduction
   normalises a negative axis"; an axis below -rank stays negative in C++ — outside the quantifier, the
   truncated subtraction here does not follow it).  HORIZONTAL iff the normalised axis is the last one;
   out_shape_k = output shape "as if keepdims" (a 1 inserted at the reduced axis) *)
Definition norm_axis (dim : nat) (axis : bool * nat) : nat :=
  if fst axis then dim - snd axis else snd axis.
Definition eval_reduce_axis (inp_shape out_shape_k : list nat) (axis : bool * nat) (inp : list A) (out_size : nat) : option (list A) :=
  let out := repeat ident out_size in
  let ax := norm_axis (length inp_shape) axis in
  let k := if ax =? length inp_shape - 1 then HORIZONTAL else VERTICAL in
  let inp2 := reduction_nd_reshape k inp_shape (S ax) in
  let out2 := reduction_nd_reshape k out_shape_k (S ax) in
  match k with
  | VERTICAL => run_steps (vstep inp) (red_entries k out2 inp2) out
  | HORIZONTAL => option_map fst (run_hsteps inp (red_entries k out2 inp2) (out, set1 ident))
  end.

(* apply_initial (since fix "SIMD reduction honours the view's initial value"): op(initial, x) folded into
   every finished result element *)
Definition apply_initial (init : option A) (x : A) : A :=
  match init with Some i => f i x | None => x end.

(* eval_reduction: out_size == 1 takes the full arm whatever the axis *)
Definition eval_reduction (inp_shape out_shape_k : list nat) (axis : option (bool * nat)) (init : option A) (inp : list A) : outcome :=
  let out_size := prodn out_shape_k in
  if out_size =? 1 then
    match eval_reduce_full (length inp) inp with Some r => Done [apply_initial init r] | None => Undefined end
  else match axis with
       | Some ax => of_opt (option_map (map (apply_initial init)) (eval_reduce_axis inp_shape out_shape_k ax inp out_size))
       | None => Refused
       end.
Definition eval_reduction_top (row_major : bool) (inp_shape out_shape_k : list nat) (axis : option (bool * nat)) (init : option A)
                              (inp scalar : list A) : outcome :=
  with_fallback scalar (guard_layout row_major (eval_reduction inp_shape out_shape_k axis init inp)).
Definition eval_outer_top (row_major : bool) (lhs_shape rhs_shape : list nat) (lhs rhs out scalar : list A) : outcome :=
  with_fallback scalar (guard_layout row_major (of_opt (eval_outer lhs_shape rhs_shape lhs rhs out))).

End Binary.

Definition eval_unary_lane_top (row_major : bool) (g f : A -> A) (inp out scalar : list A) : outcome :=
  with_fallback scalar (guard_layout row_major (of_opt (eval_unary_lane g f inp out))).
Definition eval_unary_top (row_major : bool) (f : A -> A) (inp out scalar : list A) : outcome :=
  with_fallback scalar (guard_layout row_major (of_opt (eval_unary f inp out))).

(* ================================================================== Spec *)
(* element-wise: plain maps *)
Definition spec_unary (f : A -> A) (inp : list A) : list A := map f inp.
Definition spec_binary_same (f : A -> A -> A) (lhs rhs : list A) : list A := map2 f lhs rhs.

(* NumPy broadcasting of an operand of shape [s] (same rank as [o], each extent 1 or equal) read at
   the output multi-index [idx]: extent-1 axes are read at 0 *)
Fixpoint bc_index (idx s : list nat) : list nat :=
  match idx, s with
  | i :: idx', n :: s' => (if n =? 1 then 0 else i) :: bc_index idx' s'
  | _, _ => []
  end.
Fixpoint ravel (idx s : list nat) : nat :=     (* nested-loop position: Horner *)
  match idx, s with
  | i :: idx', n :: s' => i * prodn s' + ravel idx' s'
  | _, _ => 0
  end.
Definition bc_compat (o s : list nat) : bool :=
  (length o =? length s) && forallb (fun p => (snd p =? 1) || (snd p =? fst p)) (combine o s).
Definition spec_bc_cell (o s : list nat) (c : nat) : nat := ravel (bc_index (unraveln c o) s) s.
Definition spec_binary_bc (f : A -> A -> A) (d : A) (o ls rs : list nat) (lhs rhs : list A) : list A :=
  map (fun c => f (nth (spec_bc_cell o ls c) lhs d) (nth (spec_bc_cell o rs c) rhs d)) (seq 0 (prodn o)).
(* 2-d form used by the theorem: cell (r,c) of an (R,C) output reads the operand of shape (r',c') at
   (r' = 1 ? 0 : r, c' = 1 ? 0 : c) *)
Definition bc2_cell (out_cols : nat) (s : nat * nat) (c : nat) : nat :=
  (if fst s =? 1 then 0 else c / out_cols) * snd s + (if snd s =? 1 then 0 else c mod out_cols).

Definition spec_outer (f : A -> A -> A) (lhs rhs : list A) : list A :=
  flat_map (fun a => map (f a) rhs) lhs.

(* reductions: left fold in row-major order, seeded by the first element (what the scalar evaluator
   does without `initial`) *)
Definition fold1 (f : A -> A -> A) (d : A) (l : list A) : A :=
  match l with [] => d | x :: t => fold_left f t x end.
Definition foldi (f : A -> A -> A) (d : A) (init : option A) (l : list A) : A :=
  match init with Some i => fold_left f l i | None => fold1 f d l end.
Definition spec_reduce_full (f : A -> A -> A) (d : A) (init : option A) (inp : list A) : A := foldi f d init inp.
(* inp viewed as (outer, K, inner): out[o][c] = fold over k *)
Definition spec_reduce_axis (f : A -> A -> A) (d : A) (init : option A) (outer K inner : nat) (inp : list A) : list A :=
  map (fun oc => foldi f d init (map (fun k => nth ((oc / inner * K + k) * inner + oc mod inner) inp d) (seq 0 K)))
      (seq 0 (outer * inner)).
(* storage order of a column-major (rows, cols) array whose row-major element list is [l] *)
Definition colmajor2 (d : A) (rows cols : nat) (l : list A) : list A :=
  flat_map (fun c => map (fun r => nth (r * cols + c) l d) (seq 0 rows)) (seq 0 cols).

End Simd.

Arguments Refused {A}. Arguments Undefined {A}.

(* ================================================================== lane functions of relu / relu6 *)
(* Operand-order semantics of the x86 packed max/min (MAXPS/MAXPD/MINPS/MINPD, also what SIMDe emits):
   the SECOND operand is returned unless the comparison holds, i.e. whenever either operand is NaN or both
   are zeros of either sign.  C's fmax/fmin (the vector-extension contexts call __builtin_fmax per lane)
   ignore a NaN operand and leave the sign of a zero/zero tie unspecified ([tie_first]). *)
Section LaneMax.
Variable A : Type.
Variable gtb : A -> A -> bool.      (* a > b, false when either is NaN, zeros compare equal *)
Variable nanb : A -> bool.
Definition max_x86 (a b : A) : A := if gtb a b then a else b.
Definition min_x86 (a b : A) : A := if gtb b a then a else b.
Definition fmax_c (tie_first : bool) (a b : A) : A :=
  if nanb a then b else if nanb b then a else if gtb a b then a else if gtb b a then b else if tie_first then a else b.
Definition fmin_c (tie_first : bool) (a b : A) : A :=
  if nanb a then b else if nanb b then a else if gtb b a then a else if gtb a b then b else if tie_first then a else b.
(* simd/ufunc.hpp: relu = max(a, zero); relu6 = max(min(a, six), zero) *)
Definition relu_x86 (zero a : A) : A := max_x86 a zero.
Definition relu6_x86 (zero six a : A) : A := max_x86 (min_x86 a six) zero.
Definition relu_vext (tie : bool) (zero a : A) : A := fmax_c tie a zero.
Definition relu6_vext (tie : bool) (zero six a : A) : A := fmax_c tie (fmin_c tie a six) zero.
(* the scalar functors: view/activations/relu.hpp (x > 0 ? x : 0), relu6.hpp (x<0 -> 0, x>6 -> 6, else x) *)
Definition relu_scalar (zero a : A) : A := if gtb a zero then a else zero.
Definition relu6_scalar (zero six a : A) : A := if gtb zero a then zero else if gtb a six then six else a.
End LaneMax.

(* a five-point caricature of IEEE values, enough to state the special-value table *)
Inductive tf := TNaN | TNeg (n : nat) | TPos (n : nat).      (* TNeg 0 = -0.0, TPos 0 = +0.0 *)
Definition tf_gtb (a b : tf) : bool :=
  match a, b with
  | TPos x, TPos y => y <? x
  | TPos x, TNeg y => (0 <? x) || (0 <? y)
  | TNeg x, TNeg y => x <? y
  | _, _ => false
  end.
Definition tf_nanb (a : tf) : bool := match a with TNaN => true | _ => false end.

