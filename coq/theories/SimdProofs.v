(* SimdProofs.v — lemmas for C12 (Simd.v).  Stdlib only, no axioms. *)
From Coq Require Import List Arith Lia Bool PeanoNat.
From NM Require Import Simd.
Import ListNotations.

(* ------------------------------------------------------------------ list helpers *)
Lemma skipn_skipn {X} (a b : nat) (l : list X) : skipn a (skipn b l) = skipn (b + a) l.
Proof.
  revert l; induction b as [|b IH]; intros l; simpl; [reflexivity|].
  destruct l; simpl; [now rewrite skipn_nil | apply IH].
Qed.

Lemma firstn_add {X} (a b : nat) (l : list X) : firstn (a + b) l = firstn a l ++ firstn b (skipn a l).
Proof.
  revert l; induction a as [|a IH]; intros l; simpl; [reflexivity|].
  destruct l; simpl; [now rewrite firstn_nil | now rewrite IH].
Qed.

Lemma combine_skipn {X Y} (n : nat) (a : list X) (b : list Y) :
  skipn n (combine a b) = combine (skipn n a) (skipn n b).
Proof.
  revert a b; induction n as [|n IH]; intros a b; simpl; [reflexivity|].
  destruct a; destruct b; simpl; try reflexivity; [now destruct (skipn n a) | apply IH].
Qed.

Lemma map2_firstn_skipn {X Y Z} (g : X -> Y -> Z) k i a b :
  map2 g (firstn k (skipn i a)) (firstn k (skipn i b)) = firstn k (skipn i (map2 g a b)).
Proof. unfold map2. now rewrite <- combine_firstn, <- combine_skipn, <- firstn_map, <- skipn_map. Qed.

Lemma map2_length {X Y Z} (g : X -> Y -> Z) a b : length (map2 g a b) = Nat.min (length a) (length b).
Proof. unfold map2. now rewrite map_length, combine_length. Qed.

Lemma firstn1_skipn {X} (d : X) i (l : list X) : i < length l -> firstn 1 (skipn i l) = [nth i l d].
Proof.
  revert l; induction i as [|i IH]; intros [|x l] H; simpl in *; try lia; [reflexivity|].
  apply IH; lia.
Qed.

Lemma In_firstn_in {X} n (x : X) l : In x (firstn n l) -> In x l.
Proof. revert l; induction n as [|n IH]; intros [|y l] H; simpl in *; try contradiction. destruct H; [now left | right; now apply IH]. Qed.
Lemma In_skipn_in {X} n (x : X) l : In x (skipn n l) -> In x l.
Proof. revert l; induction n as [|n IH]; intros [|y l] H; simpl in *; try contradiction; try exact H. right; now apply IH. Qed.

Lemma div_mul_le a b : a / b * b <= a.
Proof. destruct b; [lia|]. pose proof (Nat.mul_div_le a (S b)). lia. Qed.
Lemma lt_div_mul_add a b : 0 < b -> a < a / b * b + b.
Proof. intros Hb. pose proof (Nat.div_mod a b ltac:(lia)). pose proof (Nat.mod_upper_bound a b ltac:(lia)). lia. Qed.

(* ------------------------------------------------------------------ the loop invariant *)
Section Inv.
Variable A : Type.
Variable N : nat.
Hypothesis HN : 0 < N.

(* "the first i results are final, the rest untouched" *)
Definition done (vals out0 : list A) (i : nat) : list A := firstn i vals ++ skipn i out0.

Lemma done_length vals out0 i : length out0 = length vals -> i <= length vals -> length (done vals out0 i) = length vals.
Proof. intros Hl Hi. unfold done. rewrite app_length, firstn_length, skipn_length. lia. Qed.

Lemma done_0 vals out0 : done vals out0 0 = out0.
Proof. reflexivity. Qed.

Lemma done_all vals out0 : length out0 = length vals -> done vals out0 (length vals) = vals.
Proof. intros Hl. unfold done. rewrite firstn_all, skipn_all2 by lia. apply app_nil_r. Qed.

Lemma store_step vals out0 i v : length out0 = length vals -> i + length v <= length vals ->
  v = firstn (length v) (skipn i vals) ->
  storeu (done vals out0 i) i v = Some (done vals out0 (i + length v)).
Proof.
  intros Hl Hi Hv. unfold storeu. rewrite done_length by lia.
  replace (i + length v <=? length vals) with true by (symmetry; apply Nat.leb_le; lia).
  f_equal. unfold done.
  rewrite firstn_app, firstn_firstn, firstn_length.
  replace (Nat.min i i) with i by lia.
  replace (i - Nat.min i (length vals)) with 0 by lia. rewrite firstn_O, app_nil_r.
  rewrite skipn_app, firstn_length.
  replace (Nat.min i (length vals)) with i by lia.
  rewrite (skipn_all2 (firstn i vals)) by (rewrite firstn_length; lia).
  replace (i + length v - i) with (length v) by lia. simpl.
  rewrite skipn_skipn, firstn_add, <- app_assoc. now rewrite <- Hv.
Qed.

Lemma loadu_ok (m : list A) o : o + N <= length m -> loadu N m o = Some (firstn N (skipn o m)).
Proof. intros H. unfold loadu. now replace (o + N <=? length m) with true by (symmetry; apply Nat.leb_le; lia). Qed.

Lemma load1_ok (d : A) (m : list A) o : o < length m -> load1 m o = Some (nth o m d).
Proof. intros H. unfold load1. now apply nth_error_nth'. Qed.

Lemma firstn_skipn_length (m : list A) o k : o + k <= length m -> length (firstn k (skipn o m)) = k.
Proof. intros H. rewrite firstn_length, skipn_length. lia. Qed.

(* ------------------------------------------------------------------ unary *)
Section Unary.
Variable f : A -> A.

Lemma packed1_spec fuel : forall i inp out0, length out0 = length inp -> i <= length inp ->
  length inp - i <= fuel * N ->
  exists j, i <= j /\ j <= length inp /\ length inp < j + N /\ (exists q, j = i + q * N) /\
    packed1 N f fuel i (length inp) inp (done (map f inp) out0 i) = Some (done (map f inp) out0 j).
Proof.
  induction fuel as [|fu IH]; intros i inp out0 Hl Hi Hf; simpl.
  - exists i. repeat split; try lia. exists 0; lia.
  - destruct (Nat.leb_spec (i + N) (length inp)) as [Hle|Hgt].
    + rewrite loadu_ok by lia. simpl.
      assert (Hlen : length (map f (firstn N (skipn i inp))) = N)
        by (rewrite map_length; apply firstn_skipn_length; lia).
      rewrite store_step; rewrite ?map_length in *; try lia.
      * simpl. rewrite Hlen.
        destruct (IH (i + N) inp out0 Hl ltac:(lia) ltac:(lia)) as [j [H1 [H2 [H3 [[q Hq] H4]]]]].
        exists j. repeat split; try lia; [exists (S q); lia | exact H4].
      * rewrite Hlen. now rewrite skipn_map, firstn_map.
    + exists i. repeat split; try lia. exists 0; lia.
Qed.

Lemma tail1_spec (d : A) cnt : forall i inp out0, length out0 = length inp -> i + cnt = length inp ->
  tail1 f cnt i inp (done (map f inp) out0 i) = Some (map f inp).
Proof.
  induction cnt as [|c IH]; intros i inp out0 Hl Hi; simpl.
  - replace i with (length (map f inp)) by (rewrite map_length; lia).
    rewrite done_all by (rewrite map_length; lia). reflexivity.
  - rewrite (load1_ok d) by lia. simpl. unfold store1.
    rewrite store_step; rewrite ?map_length; simpl; try lia.
    + replace (i + 1) with (S i) by lia. apply IH; lia.
    + change ([f (nth i inp d)] = firstn 1 (skipn i (map f inp))).
      rewrite (firstn1_skipn (f d)) by (rewrite map_length; lia). now rewrite map_nth.
Qed.

Theorem eval_unary_eq_map (d : A) inp out0 : length out0 = length inp ->
  eval_unary N f inp out0 = Some (spec_unary f inp).
Proof.
  intros Hl. unfold eval_unary, eval_unary_gen, spec_unary.
  destruct (packed1_spec (length inp) 0 inp out0 Hl ltac:(lia) ltac:(nia)) as [j [_ [H2 [H3 [[q Hq] H4]]]]].
  rewrite done_0 in H4. rewrite H4. simpl.
  assert (Hj : j = length inp / N * N).
  { simpl in Hq. subst j. f_equal. apply Nat.div_unique with (r := length inp - q * N); nia. }
  rewrite <- Hj. apply (tail1_spec d); [exact Hl | lia].
Qed.

(* the lane function only matters where it differs from f on an element that is actually loaded *)
Lemma packed1_ext (g : A -> A) fuel : forall i size inp out,
  (forall x, In x inp -> g x = f x) ->
  packed1 N g fuel i size inp out = packed1 N f fuel i size inp out.
Proof.
  induction fuel as [|fu IH]; intros i size inp out Hg; simpl; [reflexivity|].
  destruct (i + N <=? size); [|reflexivity].
  unfold loadu. destruct (i + N <=? length inp); simpl; [|reflexivity].
  assert (Hm : map g (firstn N (skipn i inp)) = map f (firstn N (skipn i inp))).
  { apply map_ext_in. intros x Hx. apply Hg.
    apply (In_skipn_in i). apply (In_firstn_in N). exact Hx. }
  rewrite Hm. destruct (storeu out i (map f (firstn N (skipn i inp)))); simpl; [apply IH; exact Hg | reflexivity].
Qed.

Theorem eval_unary_lane_eq (g : A -> A) inp out0 : (forall x, In x inp -> g x = f x) ->
  eval_unary_lane N g f inp out0 = eval_unary N f inp out0.
Proof. intros Hg. unfold eval_unary_lane, eval_unary, eval_unary_gen. now rewrite (packed1_ext g _ _ _ _ _ Hg). Qed.
End Unary.

(* ------------------------------------------------------------------ binary, same shape *)
Section BinarySame.
Variable f : A -> A -> A.

Lemma packed2_spec fuel : forall i lhs rhs out0, length lhs = length rhs -> length out0 = length lhs -> i <= length lhs ->
  length lhs - i <= fuel * N ->
  exists j, i <= j /\ j <= length lhs /\ length lhs < j + N /\ (exists q, j = i + q * N) /\
    packed2 N f fuel i (length lhs) lhs rhs (done (map2 f lhs rhs) out0 i) = Some (done (map2 f lhs rhs) out0 j).
Proof.
  induction fuel as [|fu IH]; intros i lhs rhs out0 Hlr Hl Hi Hf; simpl.
  - exists i. repeat split; try lia. exists 0; lia.
  - destruct (Nat.leb_spec (i + N) (length lhs)) as [Hle|Hgt].
    + rewrite !loadu_ok by lia. simpl.
      assert (Hv : length (map2 f lhs rhs) = length lhs) by (rewrite map2_length; lia).
      assert (Hlen : length (map2 f (firstn N (skipn i lhs)) (firstn N (skipn i rhs))) = N).
      { rewrite map2_length, !firstn_skipn_length; lia. }
      rewrite store_step; try lia.
      * simpl. rewrite Hlen.
        destruct (IH (i + N) lhs rhs out0 Hlr Hl ltac:(lia) ltac:(lia)) as [j [H1 [H2 [H3 [[q Hq] H4]]]]].
        exists j. repeat split; try lia; [exists (S q); lia | exact H4].
      * rewrite Hlen. apply map2_firstn_skipn.
    + exists i. repeat split; try lia. exists 0; lia.
Qed.

Lemma tail2_spec (d : A) cnt : forall i lhs rhs out0, length lhs = length rhs -> length out0 = length lhs -> i + cnt = length lhs ->
  tail2 f cnt i lhs rhs (done (map2 f lhs rhs) out0 i) = Some (map2 f lhs rhs).
Proof.
  induction cnt as [|c IH]; intros i lhs rhs out0 Hlr Hl Hi; simpl.
  - assert (Hv : length (map2 f lhs rhs) = length lhs) by (rewrite map2_length; lia).
    replace i with (length (map2 f lhs rhs)) by lia.
    rewrite done_all by lia. reflexivity.
  - assert (Hv : length (map2 f lhs rhs) = length lhs) by (rewrite map2_length; lia).
    rewrite !(load1_ok d) by lia. simpl. unfold store1.
    rewrite store_step; simpl; try lia.
    + replace (i + 1) with (S i) by lia. apply IH; lia.
    + change ([f (nth i lhs d) (nth i rhs d)] = firstn 1 (skipn i (map2 f lhs rhs))).
      rewrite <- (map2_firstn_skipn f 1 i), !(firstn1_skipn d) by lia. reflexivity.
Qed.

Theorem eval_binary_same_eq (d : A) lhs rhs out0 : length lhs = length rhs -> length out0 = length lhs ->
  eval_binary_same N f (length lhs) lhs rhs out0 = Some (spec_binary_same f lhs rhs).
Proof.
  intros Hlr Hl. unfold eval_binary_same, eval_binary_same_gen, spec_binary_same.
  destruct (packed2_spec (length lhs) 0 lhs rhs out0 Hlr Hl ltac:(lia) ltac:(nia)) as [j [_ [H2 [H3 [[q Hq] H4]]]]].
  rewrite done_0 in H4. rewrite H4. simpl.
  assert (Hj : j = length lhs / N * N).
  { simpl in Hq. subst j. f_equal. apply Nat.div_unique with (r := length lhs - q * N); nia. }
  rewrite <- Hj. apply (tail2_spec d); [exact Hlr | exact Hl | lia].
Qed.
End BinarySame.

End Inv.

Lemma flat_map_ext_in_local {X Y} (g h : X -> list Y) l : (forall x, In x l -> g x = h x) -> flat_map g l = flat_map h l.
Proof. induction l as [|x l IH]; intros H; simpl; [reflexivity|]. rewrite H by now left. f_equal. apply IH. intros; apply H; now right. Qed.

(* ================================================================== binary_2d: cover once *)
Lemma seq_shift_add b n : seq b n = map (fun t => b + t) (seq 0 n).
Proof.
  revert b; induction n as [|n IH]; intros b; simpl; [reflexivity|].
  f_equal; [lia|]. rewrite (IH (S b)), <- seq_shift, map_map. apply map_ext; intros; lia.
Qed.

Lemma divmod_block c r t : t < c -> (r * c + t) / c = r /\ (r * c + t) mod c = t.
Proof.
  intros Ht. split.
  - symmetry. apply Nat.div_unique with (r := t); lia.
  - symmetry. apply Nat.mod_unique with (q := r); lia.
Qed.

(* enumerating i -> (i / c, i mod c) over [0, r*c) is the nested loop *)
Lemma map_divmod_nested {X} (g : nat -> nat -> X) c r : 0 < c ->
  map (fun i => g (i / c) (i mod c)) (seq 0 (r * c)) = flat_map (fun a => map (g a) (seq 0 c)) (seq 0 r).
Proof.
  intros Hc. induction r as [|r IH]; [reflexivity|].
  replace (S r * c) with (r * c + c) by lia.
  rewrite seq_app, map_app, IH. rewrite seq_S, flat_map_app. f_equal. simpl. rewrite app_nil_r.
  rewrite (seq_shift_add (r * c) c), map_map. apply map_ext_in. intros t Ht. apply in_seq in Ht.
  destruct (divmod_block c r t ltac:(lia)) as [-> ->]. reflexivity.
Qed.

Lemma flat_map_blocks {X} (h : nat -> X) N b P :
  flat_map (fun j => map h (seq (b + j * N) N)) (seq 0 P) = map h (seq b (P * N)).
Proof.
  induction P as [|P IH]; [reflexivity|].
  rewrite seq_S, flat_map_app, IH. simpl. rewrite app_nil_r.
  replace (N + P * N) with (P * N + N) by lia. now rewrite seq_app, map_app.
Qed.

Lemma flat_map_singletons {X} (h : nat -> X) b Q :
  flat_map (fun t => [h (b + t)]) (seq 0 Q) = map h (seq b Q).
Proof. rewrite (seq_shift_add b Q), map_map. induction (seq 0 Q); simpl; congruence. Qed.

Section B2D.
Variable N : nat.
Hypothesis HN : 0 < N.

(* the operand shapes the proof needs: a valid 2-d broadcast source of (R, C) *)
Definition valid_operand (R C : nat) (s : nat * nat) : Prop :=
  (fst s = 1 \/ fst s = R) /\ (snd s = 1 \/ snd s = C).

Lemma bc2_cell_block C s r x : x < C -> bc2_cell C s (r * C + x) =
  (if fst s =? 1 then 0 else r) * snd s + (if snd s =? 1 then 0 else x).
Proof. intros Hx. unfold bc2_cell. destruct (divmod_block C r x Hx) as [-> ->]. reflexivity. Qed.

Lemma operand_packed R C s r j t : 0 < R -> valid_operand R C s -> r < R -> j < C / N -> t < N ->
  (match fst (b2d_operand N false r j C (fst s) (snd s)) with
   | PACKED => snd (b2d_operand N false r j C (fst s) (snd s)) + t
   | _ => snd (b2d_operand N false r j C (fst s) (snd s)) end) = bc2_cell C s (r * C + (j * N + t)).
Proof.
  intros HR [Hr Hc] Hrr Hj Ht.
  assert (HjN : j * N + t < C).
  { pose proof (div_mul_le C N). nia. }
  rewrite bc2_cell_block by exact HjN.
  unfold b2d_operand. simpl andb. cbv iota.
  destruct (Nat.eqb_spec (fst s) 1) as [F1|F1].
  - rewrite F1. simpl Nat.ltb. cbv iota.
    destruct (Nat.eqb_spec (snd s) 1) as [E1|E1]; simpl; lia.
  - replace (1 <? fst s) with true by (symmetry; apply Nat.ltb_lt; lia).
    destruct (Nat.eqb_spec (snd s) 1) as [E1|E1]; simpl; lia.
Qed.

Lemma operand_scalar R C s r t : 0 < R -> valid_operand R C s -> r < R -> t < C mod N ->
  snd (b2d_operand N true r (C / N + t) C (fst s) (snd s)) = bc2_cell C s (r * C + (C / N * N + t)).
Proof.
  intros HR [Hr Hc] Hrr Ht.
  assert (HC : C = C / N * N + C mod N) by (pose proof (Nat.div_mod C N ltac:(lia)); lia).
  rewrite bc2_cell_block by lia.
  unfold b2d_operand. simpl andb.
  assert (Hg : (if 1 <? fst s then 1 else 0) = (if fst s =? 1 then 0 else 1)).
  { destruct (Nat.ltb_spec 1 (fst s)); destruct (Nat.eqb_spec (fst s) 1); lia. }
  rewrite Hg.
  destruct (Nat.eqb_spec (snd s) 1) as [E1|E1].
  - (* the offset is row * (rows > 1) in both branches *)
    rewrite E1. simpl Nat.eqb. cbv iota.
    destruct (1 / N <=? C / N + t); simpl; destruct (fst s =? 1); lia.
  - assert (Es : snd s = C) by lia.
    rewrite Es. replace (C / N <=? C / N + t) with true by (symmetry; apply Nat.leb_le; lia).
    simpl. destruct (Nat.eqb_spec C 1) as [C1|C1]; [lia|].
    destruct (fst s =? 1); lia.
Qed.

Definition bcell (C : nat) (l r : nat * nat) (c : nat) : nat * nat * nat := (c, bc2_cell C l c, bc2_cell C r c).

Lemma row_cells R C l r row : 0 < R -> valid_operand R C l -> valid_operand R C r -> row < R ->
  flat_map (cells_of N) (map (fun col => binary_2d_simd N row col (R, C) l r) (seq 0 (C / N + C mod N)))
  = map (bcell C l r) (seq (row * C) C).
Proof.
  intros HR Hl Hr Hrow.
  assert (HC : C = C / N * N + C mod N) by (pose proof (Nat.div_mod C N ltac:(lia)); lia).
  rewrite seq_app, map_app, flat_map_app.
  rewrite (seq_shift_add (0 + C / N) (C mod N)), map_map. simpl plus.
  rewrite HC at 5. rewrite seq_app, map_app. f_equal.
  - (* packed columns *)
    rewrite <- (flat_map_blocks (bcell C l r) N (row * C) (C / N)).
    rewrite flat_map_concat_map, map_map, <- flat_map_concat_map.
    apply flat_map_ext_in_local. intros j Hj. apply in_seq in Hj.
    unfold binary_2d_simd, cells_of. simpl snd.
    replace (C / N <=? j) with false by (symmetry; apply Nat.leb_gt; lia).
    destruct (b2d_operand N false row j C (fst l) (snd l)) as [lt lo] eqn:El.
    destruct (b2d_operand N false row j C (fst r) (snd r)) as [rt ro] eqn:Er.
    rewrite (seq_shift_add (row * C + j * N) N), map_map.
    apply map_ext_in. intros t Ht. apply in_seq in Ht. unfold bcell.
    pose proof (operand_packed R C l row j t HR Hl Hrow ltac:(lia) ltac:(lia)) as H1.
    pose proof (operand_packed R C r row j t HR Hr Hrow ltac:(lia) ltac:(lia)) as H2.
    rewrite El in H1. rewrite Er in H2. simpl fst in *. simpl snd in *.
    replace (row * C + j * N + t) with (row * C + (j * N + t)) by lia.
    rewrite <- H1, <- H2. replace (j * N + row * C + t) with (row * C + (j * N + t)) by lia. reflexivity.
  - (* scalar columns *)
    rewrite <- (flat_map_singletons (bcell C l r) (row * C + C / N * N) (C mod N)).
    rewrite flat_map_concat_map, map_map, <- flat_map_concat_map.
    apply flat_map_ext_in_local. intros t Ht. apply in_seq in Ht.
    unfold binary_2d_simd, cells_of. simpl snd.
    replace (C / N <=? C / N + t) with true by (symmetry; apply Nat.leb_le; lia).
    pose proof (operand_scalar R C l row t HR Hl Hrow ltac:(lia)) as H1.
    pose proof (operand_scalar R C r row t HR Hr Hrow ltac:(lia)) as H2.
    destruct (b2d_operand N true row (C / N + t) C (fst l) (snd l)) as [lt lo].
    destruct (b2d_operand N true row (C / N + t) C (fst r) (snd r)) as [rt ro].
    simpl snd in *. unfold bcell.
    replace (row * C + C / N * N + t) with (row * C + (C / N * N + t)) by lia.
    rewrite <- H1, <- H2. f_equal. f_equal. f_equal. lia.
Qed.
End B2D.

Lemma flat_map_flat_map {X Y Z} (g : Y -> list Z) (h : X -> list Y) l :
  flat_map g (flat_map h l) = flat_map (fun x => flat_map g (h x)) l.
Proof. induction l as [|x l IH]; simpl; [reflexivity|]. now rewrite flat_map_app, IH. Qed.

Theorem b2d_covers_once N R C l r : 0 < N -> 0 < R -> 0 < C ->
  valid_operand R C l -> valid_operand R C r -> R = Nat.max (fst l) (fst r) ->
  flat_map (cells_of N) (b2d_entries N (R, C) l r) = map (bcell C l r) (seq 0 (R * C)).
Proof.
  intros HN HR HC Hl Hr Hmax.
  assert (Hrows : (if fst r =? 1 then fst l else fst r) = R).
  { destruct Hl as [Hl _], Hr as [Hr _]. destruct (Nat.eqb_spec (fst r) 1); lia. }
  assert (HSC : 0 < C / N + C mod N).
  { pose proof (Nat.div_mod C N ltac:(lia)). destruct (C / N); simpl in *; lia. }
  unfold b2d_entries, b2d_size, b2d_at, binary_2d_simd_shape. simpl fst. simpl snd. rewrite Hrows.
  rewrite (map_divmod_nested (fun a b => binary_2d_simd N a b (R, C) l r) (C / N + C mod N) R HSC).
  rewrite flat_map_flat_map.
  rewrite <- (flat_map_blocks (bcell C l r) C 0 R). simpl plus.
  apply flat_map_ext_in_local. intros a Ha. apply in_seq in Ha.
  apply (row_cells N HN R C l r a HR Hl Hr). lia.
Qed.

Lemma map_seq_eq_pointwise {X} n : forall (g h : nat -> X) i,
  map g (seq 0 n) = map h (seq i n) -> forall t, t < n -> g t = h (i + t).
Proof.
  induction n as [|n IH]; intros g h i H t Ht; [lia|].
  simpl in H. injection H as H0 H1.
  destruct t as [|t]; [now rewrite Nat.add_0_r|].
  rewrite <- seq_shift, map_map in H1.
  rewrite (IH (fun t => g (S t)) h (S i) H1 t ltac:(lia)). f_equal. lia.
Qed.

(* ------------------------------------------------------------------ eval_binary_2d from the cover *)
Section B2DEval.
Variable A : Type.
Variable N : nat.
Hypothesis HN : 0 < N.
Variable f : A -> A -> A.
Variable d : A.
Variables lhs rhs : list A.

Lemma firstn_skipn_nth (m : list A) o k : o + k <= length m ->
  firstn k (skipn o m) = map (fun t => nth (o + t) m d) (seq 0 k).
Proof.
  revert o; induction k as [|k IH]; intros o H; [reflexivity|].
  rewrite seq_S, map_app. replace (S k) with (k + 1) at 1 by lia.
  rewrite firstn_add, IH by lia. f_equal.
  rewrite skipn_skipn. rewrite (firstn1_skipn d) by lia. reflexivity.
Qed.

Lemma repeat_map_seq (x : A) k : repeat x k = map (fun _ => x) (seq 0 k).
Proof. induction k as [|k IH]; [reflexivity|]. simpl. rewrite IH, <- seq_shift, map_map. reflexivity. Qed.

Lemma map2_map_seq (g h : nat -> A) k :
  map2 f (map g (seq 0 k)) (map h (seq 0 k)) = map (fun t => f (g t) (h t)) (seq 0 k).
Proof. unfold map2. induction (seq 0 k); simpl; congruence. Qed.

(* operand vector of a PACKED result, given that the cells it designates are in bounds *)
Lemma vec_of_cells (m : list A) (tg : tag) (o : nat) (cell : nat -> nat) :
  (forall t, t < N -> (match tg with PACKED => o + t | _ => o end) = cell t) ->
  (forall t, t < N -> cell t < length m) ->
  vec_of N m tg o = Some (map (fun t => nth (cell t) m d) (seq 0 N)).
Proof.
  intros Hc Hb. unfold vec_of.
  assert (Hgen : forall g : nat -> nat, (forall t, t < N -> g t = cell t) ->
            map (fun t => nth (g t) m d) (seq 0 N) = map (fun t => nth (cell t) m d) (seq 0 N)).
  { intros g Hg. apply map_ext_in. intros t Ht. apply in_seq in Ht. now rewrite Hg by lia. }
  destruct tg; try (rewrite (load1_ok A d) by (rewrite (Hc 0 HN); apply Hb; lia); simpl; f_equal;
                    unfold set1; rewrite repeat_map_seq; apply (Hgen (fun _ => o)); exact Hc).
  rewrite (loadu_ok A N) by (pose proof (Hb (N - 1) ltac:(lia)); rewrite <- (Hc (N - 1)) in H by lia; lia).
  f_equal. rewrite firstn_skipn_nth by (pose proof (Hb (N - 1) ltac:(lia)); rewrite <- (Hc (N - 1)) in H by lia; lia).
  apply (Hgen (fun t => o + t)); exact Hc.
Qed.

Variable cellf : nat -> nat * nat * nat.     (* output cell c -> (c, lhs cell, rhs cell) *)
Variable total : nat.
Hypothesis cell_out : forall c, fst (fst (cellf c)) = c.
Hypothesis cell_lb : forall c, c < total -> snd (fst (cellf c)) < length lhs.
Hypothesis cell_rb : forall c, c < total -> snd (cellf c) < length rhs.

Definition b2d_vals : list A :=
  map (fun c => f (nth (snd (fst (cellf c))) lhs d) (nth (snd (cellf c)) rhs d)) (seq 0 total).

Lemma b2d_vals_length : length b2d_vals = total.
Proof. unfold b2d_vals. now rewrite map_length, seq_length. Qed.

Lemma b2d_vals_slice i k : i + k <= total ->
  firstn k (skipn i b2d_vals) = map (fun t => f (nth (snd (fst (cellf (i + t)))) lhs d) (nth (snd (cellf (i + t))) rhs d)) (seq 0 k).
Proof.
  intros H. unfold b2d_vals. rewrite skipn_map, firstn_map.
  replace total with (i + (total - i)) by lia. rewrite seq_app, skipn_app, seq_length.
  rewrite skipn_all2 by (rewrite seq_length; lia). replace (i - i) with 0 by lia. simpl.
  replace (total - i) with (k + (total - i - k)) by lia. rewrite seq_app, firstn_app, seq_length.
  replace (k - k) with 0 by lia. rewrite firstn_all2 by (rewrite seq_length; lia). simpl. rewrite app_nil_r.
  rewrite (seq_shift_add i k), map_map. reflexivity.
Qed.

Lemma run_b2d_steps es : forall i n out0, length out0 = total -> i + n = total ->
  flat_map (cells_of N) es = map cellf (seq i n) ->
  run_steps (b2d_step N f lhs rhs) es (done A b2d_vals out0 i) = Some (done A b2d_vals out0 total).
Proof.
  induction es as [|e es IH]; intros i n out0 Hl Hin Hc; simpl in *.
  - destruct n; [|discriminate]. now replace i with total by lia.
  - destruct e as [[[ot oo] [lt lo]] [rt ro]].
    remember (length (cells_of N ((ot, oo), (lt, lo), (rt, ro)))) as k eqn:Ek.
    assert (Hk : k <= n).
    { apply (f_equal (@length _)) in Hc. rewrite app_length, map_length, seq_length in Hc. lia. }
    assert (Hhead : cells_of N ((ot, oo), (lt, lo), (rt, ro)) = map cellf (seq i k)).
    { apply (f_equal (firstn k)) in Hc. rewrite firstn_app in Hc. rewrite <- Ek in Hc.
      replace (k - k) with 0 in Hc by lia. rewrite firstn_O, app_nil_r, firstn_all2 in Hc by lia.
      rewrite Hc, firstn_map. f_equal. replace n with (k + (n - k)) by lia.
      rewrite seq_app, firstn_app, seq_length. replace (k - k) with 0 by lia.
      rewrite firstn_O, app_nil_r. apply firstn_all2. rewrite seq_length; lia. }
    assert (Htail : flat_map (cells_of N) es = map cellf (seq (i + k) (n - k))).
    { apply (f_equal (skipn k)) in Hc. rewrite skipn_app in Hc. rewrite <- Ek in Hc.
      replace (k - k) with 0 in Hc by lia. rewrite skipn_all2, skipn_O in Hc by lia. simpl in Hc.
      rewrite Hc, skipn_map. f_equal. replace n with (k + (n - k)) at 1 by lia.
      rewrite seq_app, skipn_app, seq_length. replace (k - k) with 0 by lia.
      rewrite skipn_all2 by (rewrite seq_length; lia). reflexivity. }
    assert (Hvl := b2d_vals_length).
    assert (Hstep : b2d_step N f lhs rhs (done A b2d_vals out0 i) ((ot, oo), (lt, lo), (rt, ro))
                    = Some (done A b2d_vals out0 (i + k))).
    { unfold b2d_step. unfold cells_of in Hhead, Ek.
      destruct ot.
      2-7: (simpl in Ek; subst k; simpl in Hhead; injection Hhead as Hh;
          assert (Hoo : oo = i) by (apply (f_equal (fun p => fst (fst p))) in Hh; simpl in Hh; rewrite cell_out in Hh; lia);
          assert (Hlo : lo = snd (fst (cellf i))) by (now rewrite <- Hh);
          assert (Hro : ro = snd (cellf i)) by (now rewrite <- Hh);
          rewrite (load1_ok A d) by (rewrite Hlo; apply cell_lb; lia);
          rewrite (load1_ok A d) by (rewrite Hro; apply cell_rb; lia);
          simpl; unfold store1; subst oo;
          change 1 with (length [f (nth lo lhs d) (nth ro rhs d)]);
          apply (store_step A N HN); cbn [length]; try lia;
          rewrite (b2d_vals_slice i 1) by lia; simpl; rewrite Nat.add_0_r, Hlo, Hro; reflexivity).
      { (* PACKED *)
        rewrite map_length, seq_length in Ek. subst k.
        assert (Hcells : forall t, t < N ->
                  (oo + t, match lt with PACKED => lo + t | _ => lo end, match rt with PACKED => ro + t | _ => ro end) = cellf (i + t)).
        { intros t Ht. exact (map_seq_eq_pointwise N _ cellf i Hhead t Ht). }
        assert (Hoo : oo = i).
        { pose proof (Hcells 0 HN) as H0. apply (f_equal (fun p => fst (fst p))) in H0. simpl in H0.
          rewrite cell_out in H0. lia. }
        rewrite (vec_of_cells lhs lt lo (fun t => snd (fst (cellf (i + t))))).
        + rewrite (vec_of_cells rhs rt ro (fun t => snd (cellf (i + t)))).
          * simpl. rewrite map2_map_seq. subst oo.
            rewrite (store_step A N HN).
            -- rewrite map_length, seq_length. reflexivity.
            -- lia.
            -- rewrite map_length, seq_length. lia.
            -- rewrite map_length, seq_length. symmetry. apply b2d_vals_slice. lia.
          * intros t Ht. now rewrite <- (Hcells t Ht).
          * intros t Ht. apply cell_rb. lia.
        + intros t Ht. now rewrite <- (Hcells t Ht).
        + intros t Ht. apply cell_lb. lia. } }
    rewrite Hstep. simpl. apply (IH (i + k) (n - k) out0 Hl); [lia | exact Htail].
Qed.
End B2DEval.

Lemma bc2_cell_bound R C s c : 0 < R -> 0 < C -> (fst s = 1 \/ fst s = R) -> (snd s = 1 \/ snd s = C) ->
  c < R * C -> bc2_cell C s c < fst s * snd s.
Proof.
  intros HR HC Hr Hc Hlt. unfold bc2_cell.
  assert (Hd : c / C < R) by (apply Nat.div_lt_upper_bound; lia).
  pose proof (Nat.mod_upper_bound c C ltac:(lia)) as Hm.
  destruct (Nat.eqb_spec (fst s) 1) as [F|F]; destruct (Nat.eqb_spec (snd s) 1) as [S1|S1]; nia.
Qed.

(* the BROADCASTED_2D arm computes the broadcast spec and never leaves a buffer *)
Theorem eval_binary_2d_eq (A : Type) (N : nat) (f : A -> A -> A) (d : A) R C l r (lhs rhs out0 : list A) :
  0 < N -> 0 < R -> 0 < C -> valid_operand R C l -> valid_operand R C r -> R = Nat.max (fst l) (fst r) ->
  length lhs = fst l * snd l -> length rhs = fst r * snd r -> length out0 = R * C ->
  eval_binary_2d N f (R, C) l r lhs rhs out0
  = Some (map (fun c => f (nth (bc2_cell C l c) lhs d) (nth (bc2_cell C r c) rhs d)) (seq 0 (R * C))).
Proof.
  intros HN HR HC Hl Hr Hmax Hll Hlr Hlo. unfold eval_binary_2d.
  pose proof (b2d_covers_once N R C l r HN HR HC Hl Hr Hmax) as Hcov.
  pose proof (run_b2d_steps A N HN f d lhs rhs (bcell C l r) (R * C)
                (fun c => eq_refl)
                (fun c Hc => ltac:(simpl; rewrite Hll; apply (bc2_cell_bound R C l c HR HC (proj1 Hl) (proj2 Hl) Hc)))
                (fun c Hc => ltac:(simpl; rewrite Hlr; apply (bc2_cell_bound R C r c HR HC (proj1 Hr) (proj2 Hr) Hc)))
                (b2d_entries N (R, C) l r) 0 (R * C) out0 Hlo eq_refl Hcov) as Hrun.
  rewrite done_0 in Hrun. rewrite Hrun. f_equal. unfold done.
  rewrite firstn_all2 by (rewrite b2d_vals_length; lia). rewrite skipn_all2 by lia. rewrite app_nil_r.
  reflexivity.
Qed.

(* ================================================================== reductions *)
Section Monoid.
Variable A : Type.
Variable f : A -> A -> A.
Variable e : A.
Hypothesis f_assoc : forall a b c, f (f a b) c = f a (f b c).
Hypothesis f_comm : forall a b, f a b = f b a.
Hypothesis f_id : forall a, f e a = a.

Definition msum (l : list A) : A := fold_left f l e.

Lemma f_id_r a : f a e = a.
Proof. now rewrite f_comm. Qed.

Lemma fold_left_pull l : forall a b, fold_left f l (f a b) = f a (fold_left f l b).
Proof. induction l as [|x l IH]; intros a b; simpl; [reflexivity|]. now rewrite f_assoc, IH. Qed.

Lemma fold_left_msum l a : fold_left f l a = f a (msum l).
Proof. unfold msum. now rewrite <- fold_left_pull, f_id_r. Qed.

Lemma msum_cons x l : msum (x :: l) = f x (msum l).
Proof. unfold msum at 1. simpl. now rewrite f_id, fold_left_msum. Qed.

Lemma msum_app a b : msum (a ++ b) = f (msum a) (msum b).
Proof. unfold msum at 1. now rewrite fold_left_app, fold_left_msum. Qed.

Lemma msum_repeat_e k : msum (repeat e k) = e.
Proof. induction k as [|k IH]; [reflexivity|]. simpl repeat. now rewrite msum_cons, IH, f_id. Qed.

Lemma msum_map2 a : forall b, length a = length b -> msum (map2 f a b) = f (msum a) (msum b).
Proof.
  induction a as [|x a IH]; intros [|y b] H; simpl in H; try discriminate.
  - unfold map2. simpl. unfold msum. simpl. now rewrite f_id.
  - unfold map2 in *. simpl. rewrite !msum_cons, IH by lia.
    rewrite !f_assoc. f_equal. rewrite <- !f_assoc. f_equal. apply f_comm.
Qed.

(* the horizontal op of the evaluator: fold of the lanes, seeded by lane 0 *)
Lemma hfold_msum z reg : reg <> [] -> hfold f z reg = msum reg.
Proof. destruct reg as [|x t]; [congruence|]. intros _. simpl. now rewrite msum_cons, fold_left_msum. Qed.

Lemma fold1_msum d l : l <> [] -> fold1 f d l = msum l.
Proof. destruct l as [|x t]; [congruence|]. intros _. simpl. now rewrite msum_cons, fold_left_msum. Qed.

Section Full.
Variable N : nat.
Hypothesis HN : 0 < N.

Lemma full_packed_spec fuel : forall i inp reg, i <= length inp -> length reg = N ->
  length inp - i <= fuel * N ->
  exists j reg', i <= j /\ j <= length inp /\ length inp < j + N /\ (exists q, j = i + q * N) /\ length reg' = N /\
    full_packed N f fuel i (length inp) inp reg = Some reg' /\
    f (msum reg) (msum (firstn (j - i) (skipn i inp))) = msum reg'.
Proof.
  induction fuel as [|fu IH]; intros i inp reg Hi Hr Hf; simpl.
  - exists i, reg. repeat split; try lia; [exists 0; lia|]. replace (i - i) with 0 by lia. simpl. apply f_id_r.
  - destruct (Nat.leb_spec (i + N) (length inp)) as [Hle|Hgt].
    + rewrite (loadu_ok A N HN) by lia. simpl.
      assert (Hla : length (firstn N (skipn i inp)) = N) by (apply (firstn_skipn_length A N HN); lia).
      destruct (IH (i + N) inp (map2 f reg (firstn N (skipn i inp))) ltac:(lia)
                  ltac:(rewrite map2_length; lia) ltac:(lia)) as [j [reg' [H1 [H2 [H3 [[q Hq] [H5 [H6 H7]]]]]]]].
      exists j, reg'. repeat split; try lia; [exists (S q); lia | exact H6 |].
      rewrite <- H7, msum_map2 by lia. rewrite f_assoc. f_equal.
      replace (j - i) with (N + (j - (i + N))) by lia.
      rewrite firstn_add, msum_app, skipn_skipn. reflexivity.
    + exists i, reg. repeat split; try lia; [exists 0; lia|]. replace (i - i) with 0 by lia. simpl. apply f_id_r.
Qed.

Lemma full_tail_spec (d : A) cnt : forall i inp acc, i + cnt <= length inp ->
  full_tail f cnt i inp acc = Some (fold_left f (firstn cnt (skipn i inp)) acc).
Proof.
  induction cnt as [|c IH]; intros i inp acc H; cbn [full_tail]; [reflexivity|].
  rewrite (load1_ok A d) by lia. cbn [obind]. rewrite IH by lia. f_equal.
  replace (S c) with (1 + c) by lia. rewrite firstn_add, fold_left_app, (firstn1_skipn d) by lia.
  rewrite skipn_skipn. cbn [fold_left]. now replace (i + 1) with (S i) by lia.
Qed.

(* accumulator started from [e]: the full reduction is the fold of all elements *)
Theorem eval_reduce_full_eq (d z : A) inp : eval_reduce_full N f z e (length inp) inp = Some (msum inp).
Proof.
  unfold eval_reduce_full.
  destruct (full_packed_spec (length inp) 0 inp (set1 N e) ltac:(lia) ltac:(unfold set1; apply repeat_length) ltac:(nia))
    as [j [reg' [_ [H2 [H3 [[q Hq] [H5 [H6 H7]]]]]]]].
  rewrite H6. simpl.
  assert (Hj : j = length inp / N * N).
  { simpl in Hq. subst j. f_equal. apply Nat.div_unique with (r := length inp - q * N); nia. }
  rewrite <- Hj. rewrite (full_tail_spec d) by lia. f_equal.
  rewrite hfold_msum by (intros ->; simpl in H5; lia).
  rewrite fold_left_msum, <- H7. unfold set1. rewrite msum_repeat_e, f_id.
  rewrite Nat.sub_0_r, skipn_O, <- msum_app.
  replace (length inp - j) with (length (skipn j inp)) by (rewrite skipn_length; lia).
  now rewrite firstn_all, firstn_skipn.
Qed.

Definition init_or (init : option A) : A := match init with Some i => i | None => e end.

Lemma apply_initial_msum init l : apply_initial f init (msum l) = fold_left f l (init_or init).
Proof. destruct init as [i|]; simpl; [now rewrite fold_left_msum | reflexivity]. Qed.

(* ... and with an initial value it is the fold seeded by it (what the scalar evaluator computes) *)
Theorem eval_reduce_full_init_eq (d z : A) init inp :
  option_map (apply_initial f init) (eval_reduce_full N f z e (length inp) inp) = Some (fold_left f inp (init_or init)).
Proof. rewrite (eval_reduce_full_eq d z). simpl. now rewrite apply_initial_msum. Qed.
End Full.

(* ------------------------------------------------------------------ horizontal 2-d core *)
Section Horizontal.
Variable N : nat.
Hypothesis HN : 0 < N.
Variable z : A.                 (* hfold's value on an empty register: never used, N > 0 *)
Variable inp : list A.
Variables R C : nat.
Hypothesis HC : 0 < C.
Hypothesis Hinp : length inp = R * C.
Variable out2 : nat * nat.      (* not used by the HORIZONTAL enumerator *)

Definition hvals : list A := map (fun r => msum (firstn C (skipn (r * C) inp))) (seq 0 R).
Lemma hvals_length : length hvals = R.
Proof. unfold hvals. now rewrite map_length, seq_length. Qed.

Let P := C / N.
Let Q := C - P * N.
Let SC := P + (if C mod N =? 0 then 0 else 1).

Lemma hq_facts : C = P * N + Q /\ Q < N /\ C mod N = Q.
Proof.
  unfold Q, P. pose proof (Nat.div_mod C N ltac:(lia)) as H. pose proof (Nat.mod_upper_bound C N ltac:(lia)) as H2.
  replace (N * (C / N)) with (C / N * N) in H by lia. lia.
Qed.

Lemma hrow_steps (d : A) out0 r : length out0 = R -> r < R ->
  forall cnt j0 accum, j0 + cnt = SC -> 0 < cnt -> length accum = N ->
  msum accum = msum (firstn (j0 * N) (skipn (r * C) inp)) ->
  run_hsteps N f z e inp (map (fun j => reduction_2d N HORIZONTAL r j out2 (R, C)) (seq j0 cnt))
             (done A hvals out0 r, accum)
  = Some (done A hvals out0 (S r), set1 N e).
Proof.
  intros Hlo Hr. destruct hq_facts as [HCq [HQ Hmod]].
  assert (HSC : SC = P + (if Q =? 0 then 0 else 1)) by (unfold SC; now rewrite Hmod).
  assert (Hrow : r * C + C <= length inp) by (rewrite Hinp; nia).
  induction cnt as [|cnt IH]; intros j0 accum Hj Hcnt Hla Hsum; [lia|].
  cbn [seq map run_hsteps].
  unfold reduction_2d at 1. cbn [snd fst]. fold P. fold Q.
  assert (Hj0 : j0 <= P) by (destruct (Q =? 0); lia).
  (* the register after this entry, and what it sums *)
  assert (Hacc : exists accum', length accum' = N /\
            (match (if C <? j0 * N + N then PAD (N - Q) else PACKED) with
             | PACKED => option_map (fun a => map2 f accum a) (loadu N inp (r * C + j0 * N))
             | PAD k => if (1 <=? k) && (k <=? N - 1)
                        then option_map (fun a => map2 f accum (a ++ repeat e k)) (loadk inp (r * C + j0 * N) (N - k))
                        else Some accum
             | _ => Some accum end) = Some accum' /\
            msum accum' = msum (firstn (Nat.min (j0 * N + N) C) (skipn (r * C) inp))).
  { destruct (Nat.ltb_spec C (j0 * N + N)) as [Hpad|Hpk].
    - (* last, padded pack: j0 = P and Q > 0 *)
      assert (j0 = P) by nia. subst j0. assert (0 < Q) by (destruct (Nat.eqb_spec Q 0); lia).
      replace ((1 <=? N - Q) && (N - Q <=? N - 1)) with true
        by (symmetry; apply andb_true_intro; split; apply Nat.leb_le; lia).
      replace (N - (N - Q)) with Q by lia.
      unfold loadk. replace (r * C + P * N + Q <=? length inp) with true by (symmetry; apply Nat.leb_le; lia).
      cbn [option_map]. eexists. split; [|split; [reflexivity|]].
      + rewrite map2_length, app_length, repeat_length, (firstn_skipn_length A N HN) by lia. lia.
      + rewrite msum_map2 by (rewrite app_length, repeat_length, (firstn_skipn_length A N HN) by lia; lia).
        rewrite msum_app, msum_repeat_e, f_id_r, Hsum.
        replace (Nat.min (P * N + N) C) with (P * N + Q) by lia.
        rewrite firstn_add, msum_app, skipn_skipn. reflexivity.
    - rewrite (loadu_ok A N HN) by nia. cbn [option_map]. eexists. split; [|split; [reflexivity|]].
      + rewrite map2_length, (firstn_skipn_length A N HN) by nia. lia.
      + rewrite msum_map2 by (rewrite (firstn_skipn_length A N HN) by nia; lia).
        rewrite Hsum. replace (Nat.min (j0 * N + N) C) with (j0 * N + N) by lia.
        rewrite firstn_add, msum_app, skipn_skipn. reflexivity. }
  destruct Hacc as [accum' [Hla' [Hstep Hsum']]].
  replace (r * C + j0 * N) with (r * C + j0 * N) in Hstep by lia.
  unfold hstep. cbn [fst snd].
  rewrite Hstep. cbn [obind].
  destruct (Nat.eqb_spec (j0 + 1) (P + (if Q =? 0 then 0 else 1))) as [Hlast|Hnot].
  - (* ACCUMULATE: flush the row *)
    assert (cnt = 0) by lia. subst cnt. cbn [seq map run_hsteps].
    unfold store1.
    assert (Hmin : Nat.min (j0 * N + N) C = C) by (destruct (Q =? 0) eqn:EQ; [apply Nat.eqb_eq in EQ|apply Nat.eqb_neq in EQ]; nia).
    rewrite Hmin in Hsum'.
    rewrite (store_step A N HN hvals out0 r [hfold f z accum']).
    + cbn [option_map length]. now replace (r + 1) with (S r) by lia.
    + rewrite hvals_length; lia.
    + cbn [length]. rewrite hvals_length; lia.
    + cbn [length]. unfold hvals. rewrite skipn_map, firstn_map.
      replace R with (r + (R - r)) by lia. rewrite seq_app, skipn_app, seq_length.
      rewrite skipn_all2 by (rewrite seq_length; lia). replace (r - r) with 0 by lia. cbn [skipn app].
      replace (R - r) with (S (R - r - 1)) by lia. cbn [seq firstn map]. f_equal.
      rewrite hfold_msum by (intros ->; simpl in Hla'; lia). exact Hsum'.
  - (* NOP: keep accumulating *)
    assert (Hj1 : j0 + 1 <= P) by (destruct (Q =? 0); lia).
    apply IH; try lia.
    rewrite Hsum'. f_equal. f_equal. nia.
Qed.

Theorem hreduce_eq (d : A) out0 : length out0 = R ->
  option_map fst (run_hsteps N f z e inp (red_entries N HORIZONTAL out2 (R, C)) (out0, set1 N e)) = Some hvals.
Proof.
  intros Hlo. destruct hq_facts as [HCq [HQ Hmod]].
  assert (HSCpos : 0 < SC).
  { unfold SC. rewrite Hmod. destruct (Nat.eqb_spec Q 0); [|lia]. assert (0 < P) by nia. lia. }
  unfold red_entries, reduction_2d_shape. cbn [fst snd]. fold P. fold SC.
  rewrite (map_divmod_nested (fun a b => reduction_2d N HORIZONTAL a b out2 (R, C)) SC R HSCpos).
  assert (Hgen : forall k, k <= R ->
     run_hsteps N f z e inp (flat_map (fun a => map (fun b => reduction_2d N HORIZONTAL a b out2 (R, C)) (seq 0 SC)) (seq (R - k) k))
       (done A hvals out0 (R - k), set1 N e) = Some (done A hvals out0 R, set1 N e)).
  { induction k as [|k IH]; intros Hk; [now rewrite Nat.sub_0_r|].
    cbn [seq flat_map].
    assert (Happ : forall es1 es2 st, run_hsteps N f z e inp (es1 ++ es2) st
                    = obind (run_hsteps N f z e inp es1 st) (run_hsteps N f z e inp es2)).
    { induction es1 as [|x es1 IH1]; intros es2 st; cbn [app run_hsteps]; [reflexivity|].
      destruct (hstep N f z e inp st x); cbn [obind]; [apply IH1 | reflexivity]. }
    rewrite Happ.
    rewrite (hrow_steps d out0 (R - S k) Hlo ltac:(lia) SC 0 (set1 N e) ltac:(lia) HSCpos
               ltac:(unfold set1; apply repeat_length) ltac:(unfold set1; now rewrite msum_repeat_e)).
    cbn [obind]. replace (S (R - S k)) with (R - k) by lia. apply IH. lia. }
  specialize (Hgen R ltac:(lia)). rewrite Nat.sub_diag, done_0 in Hgen. rewrite Hgen. cbn [option_map fst]. f_equal.
  unfold done. rewrite firstn_all2 by (rewrite hvals_length; lia). rewrite skipn_all2 by lia. apply app_nil_r.
Qed.

Theorem hreduce_init_eq (d : A) init out0 : length out0 = R ->
  option_map (map (apply_initial f init))
    (option_map fst (run_hsteps N f z e inp (red_entries N HORIZONTAL out2 (R, C)) (out0, set1 N e)))
  = Some (map (fun r => fold_left f (firstn C (skipn (r * C) inp)) (init_or init)) (seq 0 R)).
Proof.
  intros Hlo. rewrite (hreduce_eq d out0 Hlo). simpl. f_equal. unfold hvals. rewrite map_map.
  apply map_ext. intros r. apply apply_initial_msum.
Qed.
End Horizontal.
End Monoid.

(* ------------------------------------------------------------------ vertical 2-d core (no algebraic law needed) *)
Section Vertical.
Variable A : Type.
Variable f : A -> A -> A.
Variable N : nat.
Hypothesis HN : 0 < N.
Variable d : A.
Variable inp : list A.
Variables outer K C : nat.
Hypothesis HK : 0 < K.
Hypothesis HC : 0 < C.
Hypothesis Houter : 0 < outer.
Hypothesis Hinp : length inp = outer * K * C.

Definition vcells (e : entry2) : list (nat * nat) :=
  let '((ot, oo), (_, io)) := e in
  match ot with
  | ACCUMULATE_PACKED => map (fun t => (oo + t, io + t)) (seq 0 N)
  | ACCUMULATE => [(oo, io)]
  | _ => []
  end.

Lemma vrow_cells i : i < outer * K ->
  flat_map vcells (map (fun j => reduction_2d N VERTICAL i j (outer, C) (outer * K, C)) (seq 0 (C / N + C mod N)))
  = map (fun x => (i / K * C + x, i * C + x)) (seq 0 C).
Proof.
  intros Hi.
  assert (HCq : C = C / N * N + C mod N) by (pose proof (Nat.div_mod C N ltac:(lia)); lia).
  assert (Hm : C mod N < N) by (apply Nat.mod_upper_bound; lia).
  assert (HKdiv : outer * K / outer = K) by (rewrite Nat.mul_comm; apply Nat.div_mul; lia).
  rewrite seq_app, map_app, flat_map_app.
  rewrite (seq_shift_add (0 + C / N) (C mod N)), map_map. simpl plus.
  assert (Hs : seq 0 C = seq 0 (C / N * N) ++ seq (0 + C / N * N) (C mod N)) by (rewrite <- seq_app; now rewrite <- HCq).
  rewrite Hs, map_app. f_equal.
  - rewrite <- (flat_map_blocks (fun x => (i / K * C + x, i * C + x)) N 0 (C / N)).
    rewrite flat_map_concat_map, map_map, <- flat_map_concat_map.
    apply flat_map_ext_in_local. intros j Hj. apply in_seq in Hj.
    unfold reduction_2d, vcells. cbn [fst snd]. rewrite HKdiv.
    assert (HjN : j * N + N <= C) by nia.
    replace (j * N + N <=? C) with true by (symmetry; apply Nat.leb_le; lia).
    replace (C <? j * N) with false by (symmetry; apply Nat.ltb_ge; lia).
    rewrite (seq_shift_add (0 + j * N) N), map_map. apply map_ext. intros t. f_equal; lia.
  - rewrite <- (flat_map_singletons (fun x => (i / K * C + x, i * C + x)) (0 + C / N * N) (C mod N)).
    rewrite flat_map_concat_map, map_map, <- flat_map_concat_map.
    apply flat_map_ext_in_local. intros t Ht. apply in_seq in Ht.
    unfold reduction_2d, vcells. cbn [fst snd]. rewrite HKdiv.
    replace ((C / N + t) * N + N <=? C) with false by (symmetry; apply Nat.leb_gt; nia).
    destruct (Nat.ltb_spec C ((C / N + t) * N)) as [H1|H1].
    + f_equal. f_equal; lia.
    + assert (t = 0) by nia. subst t. f_equal. f_equal; lia.
Qed.

Definition upd_row (out : list A) (o : nat) (rowv : list A) : list A :=
  firstn (o * C) out ++ map2 f (firstn C (skipn (o * C) out)) rowv ++ skipn (o * C + C) out.

Lemma firstn_skipn_firstn {X} k x c (L : list X) : x + k <= c -> firstn k (skipn x (firstn c L)) = firstn k (skipn x L).
Proof. intros H. rewrite skipn_firstn_comm, firstn_firstn. f_equal. lia. Qed.

Section Row.
Variable out : list A.
Variables o a : nat.
Hypothesis Hout : length out = outer * C.
Hypothesis Ho : o < outer.
Hypothesis Ha : a + C <= length inp.
Let vals := upd_row out o (firstn C (skipn a inp)).

Lemma oC_bound : o * C + C <= outer * C.
Proof. nia. Qed.

Lemma vals_length : length vals = length out.
Proof.
  pose proof oC_bound. unfold vals, upd_row.
  rewrite !app_length, map2_length, !firstn_length, !skipn_length. lia.
Qed.

Lemma vals_split x : x <= C ->
  skipn (o * C + x) vals = skipn x (map2 f (firstn C (skipn (o * C) out)) (firstn C (skipn a inp))) ++ skipn (o * C + C) out.
Proof.
  intros Hx. pose proof oC_bound. unfold vals, upd_row.
  rewrite skipn_app, firstn_length. replace (Nat.min (o * C) (length out)) with (o * C) by lia.
  rewrite skipn_all2 by (rewrite firstn_length; lia). cbn [app].
  replace (o * C + x - o * C) with x by lia.
  rewrite skipn_app. f_equal.
  rewrite map2_length, !firstn_length, !skipn_length.
  replace (x - Nat.min (Nat.min C (length out - o * C)) (Nat.min C (length inp - a))) with 0 by lia. reflexivity.
Qed.

Lemma vals_slice x k : x + k <= C ->
  firstn k (skipn (o * C + x) vals) = map2 f (firstn k (skipn (o * C + x) out)) (firstn k (skipn (a + x) inp)).
Proof.
  intros H. pose proof oC_bound. rewrite vals_split by lia.
  rewrite firstn_app.
  rewrite skipn_length, map2_length, !firstn_length, !skipn_length.
  replace (k - (Nat.min (Nat.min C (length out - o * C)) (Nat.min C (length inp - a)) - x)) with 0 by lia.
  rewrite firstn_O, app_nil_r.
  rewrite <- map2_firstn_skipn, !firstn_skipn_firstn by lia. now rewrite !skipn_skipn.
Qed.

Lemma done_start : done A vals out (o * C) = out.
Proof.
  pose proof oC_bound. unfold done. unfold vals at 1. unfold upd_row. rewrite firstn_app, firstn_length.
  replace (o * C - Nat.min (o * C) (length out)) with 0 by lia.
  rewrite firstn_O, app_nil_r, firstn_firstn. replace (Nat.min (o * C) (o * C)) with (o * C) by lia.
  apply firstn_skipn.
Qed.

Lemma done_end : done A vals out (o * C + C) = vals.
Proof.
  unfold done. rewrite <- (firstn_skipn (o * C + C) vals) at 2. f_equal.
  rewrite vals_split by lia.
  rewrite (@skipn_all2 _ C (map2 f (firstn C (skipn (o * C) out)) (firstn C (skipn a inp)))); [reflexivity|].
  pose proof oC_bound. rewrite map2_length, !firstn_length, !skipn_length. lia.
Qed.

Lemma done_read p k : p + k <= length out ->
  firstn k (skipn p (done A vals out p)) = firstn k (skipn p out).
Proof.
  intros H. unfold done. rewrite skipn_app, firstn_length, vals_length.
  replace (p - Nat.min p (length out)) with 0 by lia.
  rewrite skipn_all2 by (rewrite firstn_length, vals_length; lia). reflexivity.
Qed.

Lemma run_vsteps es : forall x n, x + n = C ->
  flat_map vcells es = map (fun x => (o * C + x, a + x)) (seq x n) ->
  run_steps (vstep N f inp) es (done A vals out (o * C + x)) = Some (done A vals out (o * C + C)).
Proof.
  pose proof oC_bound as HoC. pose proof vals_length as Hvl.
  induction es as [|e es IH]; intros x n Hxn Hc.
  - simpl in Hc. destruct n; [|discriminate]. cbn [run_steps]. do 2 f_equal. lia.
  - cbn [flat_map run_steps] in *.
    destruct e as [[ot oo] [it io]].
    remember (length (vcells ((ot, oo), (it, io)))) as k eqn:Ek.
    assert (Hk : k <= n).
    { apply (f_equal (@length _)) in Hc. rewrite app_length, map_length, seq_length in Hc. lia. }
    assert (Hhead : vcells ((ot, oo), (it, io)) = map (fun x => (o * C + x, a + x)) (seq x k)).
    { apply (f_equal (firstn k)) in Hc. rewrite firstn_app in Hc. rewrite <- Ek in Hc.
      replace (k - k) with 0 in Hc by lia. rewrite firstn_O, app_nil_r, firstn_all2 in Hc by lia.
      rewrite Hc, firstn_map. f_equal. replace n with (k + (n - k)) by lia.
      rewrite seq_app, firstn_app, seq_length. replace (k - k) with 0 by lia.
      rewrite firstn_O, app_nil_r. apply firstn_all2. rewrite seq_length; lia. }
    assert (Htail : flat_map vcells es = map (fun x => (o * C + x, a + x)) (seq (x + k) (n - k))).
    { apply (f_equal (skipn k)) in Hc. rewrite skipn_app in Hc. rewrite <- Ek in Hc.
      replace (k - k) with 0 in Hc by lia. rewrite skipn_all2, skipn_O in Hc by lia. simpl in Hc.
      rewrite Hc, skipn_map. f_equal. replace n with (k + (n - k)) at 1 by lia.
      rewrite seq_app, skipn_app, seq_length. replace (k - k) with 0 by lia.
      rewrite skipn_all2 by (rewrite seq_length; lia). reflexivity. }
    assert (Hstep : vstep N f inp (done A vals out (o * C + x)) ((ot, oo), (it, io)) = Some (done A vals out (o * C + (x + k)))).
    { unfold vstep. unfold vcells in Hhead, Ek.
      destruct ot; try (simpl in Ek; subst k; do 2 f_equal; lia).
      - (* ACCUMULATE: one scalar cell *)
        simpl in Ek. subst k. simpl in Hhead. injection Hhead as Hoo Hio. subst oo io.
        assert (Hp : o * C + x < length out) by lia.
        rewrite (load1_ok A d) by (rewrite (done_length A N HN) by lia; lia).
        rewrite (load1_ok A d) by lia. cbn [obind]. unfold store1.
        rewrite (store_step A N HN vals out (o * C + x) [f (nth (o * C + x) (done A vals out (o * C + x)) d) (nth (a + x) inp d)]).
        + cbn [length]. do 2 f_equal. lia.
        + lia.
        + cbn [length]. lia.
        + cbn [length]. rewrite (vals_slice x 1) by lia.
          rewrite <- (done_read (o * C + x) 1) by lia.
          rewrite !(firstn1_skipn d) by (rewrite ?(done_length A N HN) by lia; lia). reflexivity.
      - (* ACCUMULATE_PACKED *)
        rewrite map_length, seq_length in Ek. subst k.
        pose proof (map_seq_eq_pointwise N (fun t => (oo + t, io + t)) (fun x => (o * C + x, a + x)) x Hhead 0 HN) as H0.
        cbn beta in H0. rewrite !Nat.add_0_r in H0. injection H0 as Hoo Hio. subst oo io.
        rewrite (loadu_ok A N HN) by lia. cbn [obind].
        rewrite (loadu_ok A N HN) by (rewrite (done_length A N HN) by lia; lia). cbn [obind].
        rewrite done_read by lia.
        replace N with (length (map2 f (firstn N (skipn (o * C + x) out)) (firstn N (skipn (a + x) inp)))) at 5
          by (rewrite map2_length, !(firstn_skipn_length A N HN) by lia; lia).
        rewrite (store_step A N HN).
        + rewrite map2_length, !(firstn_skipn_length A N HN) by lia. do 2 f_equal. lia.
        + lia.
        + rewrite map2_length, !(firstn_skipn_length A N HN) by lia. lia.
        + rewrite map2_length, !(firstn_skipn_length A N HN) by lia.
          replace (Nat.min N N) with N by lia. symmetry. apply vals_slice. lia. }
    rewrite Hstep. cbn [obind]. replace (o * C + (x + k)) with (o * C + (x + k)) by lia.
    apply (IH (x + k) (n - k)); [lia | exact Htail].
Qed.
End Row.

(* the effect of input row i: it is accumulated element-wise into output row i / K, nothing else changes *)
Definition vrow_effect (out : list A) (i : nat) : list A := upd_row out (i / K) (firstn C (skipn (i * C) inp)).

Lemma run_steps_app {E} (step : list A -> E -> option (list A)) es1 : forall es2 out,
  run_steps step (es1 ++ es2) out = obind (run_steps step es1 out) (run_steps step es2).
Proof.
  induction es1 as [|x es1 IH]; intros es2 out; cbn [app run_steps]; [reflexivity|].
  destruct (step out x); cbn [obind]; [apply IH | reflexivity].
Qed.

Lemma vrow_run out i : length out = outer * C -> i < outer * K ->
  run_steps (vstep N f inp) (map (fun j => reduction_2d N VERTICAL i j (outer, C) (outer * K, C)) (seq 0 (C / N + C mod N))) out
  = Some (vrow_effect out i) /\ length (vrow_effect out i) = outer * C.
Proof.
  intros Hout Hi.
  assert (Ho : i / K < outer) by (apply Nat.div_lt_upper_bound; lia).
  assert (Ha : i * C + C <= length inp) by (rewrite Hinp; nia).
  split.
  - pose proof (run_vsteps out (i / K) (i * C) Hout Ho Ha _ 0 C ltac:(lia) (vrow_cells i Hi)) as H.
    rewrite Nat.add_0_r, (done_start out (i / K) (i * C) Hout Ho Ha) in H.
    rewrite H. f_equal. apply (done_end out (i / K) (i * C) Hout Ho Ha).
  - unfold vrow_effect. rewrite (vals_length out (i / K) (i * C) Hout Ho Ha). exact Hout.
Qed.

Theorem vreduce_eq out0 : length out0 = outer * C ->
  run_steps (vstep N f inp) (red_entries N VERTICAL (outer, C) (outer * K, C)) out0
  = Some (fold_left vrow_effect (seq 0 (outer * K)) out0).
Proof.
  intros Hout.
  assert (HSC : 0 < C / N + C mod N).
  { pose proof (Nat.div_mod C N ltac:(lia)). destruct (C / N); simpl in *; lia. }
  unfold red_entries, reduction_2d_shape. cbn [fst snd].
  rewrite (map_divmod_nested (fun a b => reduction_2d N VERTICAL a b (outer, C) (outer * K, C)) (C / N + C mod N) (outer * K) HSC).
  assert (Hgen : forall rows out, length out = outer * C -> Forall (fun i => i < outer * K) rows ->
     run_steps (vstep N f inp)
       (flat_map (fun a => map (fun b => reduction_2d N VERTICAL a b (outer, C) (outer * K, C)) (seq 0 (C / N + C mod N))) rows) out
     = Some (fold_left vrow_effect rows out)).
  { induction rows as [|i rows IH]; intros out Ho Hall; [reflexivity|].
    inversion Hall as [|? ? Hi Hrest]; subst.
    cbn [flat_map fold_left]. rewrite run_steps_app.
    destruct (vrow_run out i Ho Hi) as [Hrun Hlen]. rewrite Hrun. cbn [obind]. apply IH; assumption. }
  apply Hgen; [exact Hout|]. apply Forall_forall. intros i Hi. apply in_seq in Hi. lia.
Qed.
End Vertical.
