(* KindIndepShapes.v — C09: acceptance and result of reshape / broadcast_to shapes do not depend on the container kind *)
From NM Require Import Base Index Broadcast BroadcastProofs Views ViewsProofs Kinds KindIndep.
Local Open Scope Z_scope.

(* acceptance AND result of reshape / broadcast_to shapes are the same for any two kinds that can hold the ideal result,
   and equal NumPy's: a request that must be rejected is rejected by every kind *)
Lemma shape_functions_kind_independent k1 k2 src dst :
  pos src -> prod src < 2 ^ 64 -> dst <> [] -> prod (np_known dst) < 2 ^ 64 ->
  (forall r, shape_reshape src dst = Some r -> fits_kind k1 r = true /\ fits_kind k2 r = true) ->
  ostore k1 (shape_reshape src dst) = np_reshape_shape src dst
  /\ ostore k2 (shape_reshape src dst) = np_reshape_shape src dst.
Proof.
  intros Hs Hb Hne Hk Hfit.
  destruct (kinds_agree k1 k2 (shape_reshape src dst) Hfit) as (H1 & H2 & _).
  rewrite H1, H2, (shape_reshape_np src dst Hs Hb Hne Hk). split; reflexivity.
Qed.

Lemma broadcast_to_kind_independent k1 k2 a b :
  (forall r, option_map fst (shape_broadcast_to a b) = Some r -> fits_kind k1 r = true /\ fits_kind k2 r = true) ->
  ostore k1 (option_map fst (shape_broadcast_to a b)) = np_broadcast_to_shape a b
  /\ ostore k2 (option_map fst (shape_broadcast_to a b)) = np_broadcast_to_shape a b.
Proof.
  intros Hfit.
  destruct (kinds_agree k1 k2 (option_map fst (shape_broadcast_to a b)) Hfit) as (H1 & H2 & _).
  rewrite H1, H2, shape_broadcast_to_shape. split; reflexivity.
Qed.
