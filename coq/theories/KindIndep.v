(* KindIndep.v — C09: what a container of a given kind holds after the library writes
   an ideal result into it, and the fit guard under which that is the ideal result.
   A kind is (element width, optional capacity, optional per-element clip bounds):
     std::vector<size_t>            width 64, no capacity, no clip
     std::vector<int> / ct<int>     width 31 (non-negative part of int), ...
     utl::static_vector<T,N>        capacity N  (resize beyond N is refused: elements are dropped)
     tuple of clipped_size_t<Max>   clip bounds Max_i (values above are clamped, def.hpp:71)
     std::array<T,N> / tuples       capacity = length = N *)
From NM Require Import Base Index IndexProofs Broadcast BroadcastProofs Kinds.
Local Open Scope Z_scope.

Record ckind := { width : Z; cap : option Z; clipb : option (list Z) }.

Fixpoint zmin_all (r m : list Z) : list Z :=
  match r, m with
  | x :: r', y :: m' => Z.min x y :: zmin_all r' m'
  | _, _ => r
  end.

Definition store (k : ckind) (r : list Z) : list Z :=
  let wrapped := map (wrap (width k)) r in
  let clipped := match clipb k with Some m => zmin_all wrapped m | None => wrapped end in
  match cap k with Some c => firstn (Z.to_nat c) clipped | None => clipped end.

Definition fits_kind (k : ckind) (r : list Z) : bool :=
  forallb (fun x => (0 <=? x) && (x <? 2 ^ width k)) r
  && (match cap k with Some c => zlen r <=? c | None => true end)
  && (match clipb k with Some m => le_all r m | None => true end).

Definition ostore (k : ckind) (o : option (list Z)) : option (list Z) := option_map (store k) o.

Lemma map_wrap_id w r : forallb (fun x => (0 <=? x) && (x <? 2 ^ w)) r = true -> map (wrap w) r = r.
Proof.
  induction r as [|x r IH]; simpl; intros H; [reflexivity|].
  apply andb_prop in H as [H1 H2]. apply andb_prop in H1 as [Ha Hb].
  rewrite IH by exact H2. rewrite wrap_small by lia. reflexivity.
Qed.

Lemma zmin_all_id r : forall m, le_all r m = true -> zmin_all r m = r.
Proof.
  induction r as [|x r IH]; intros [|y m] H; simpl in *; try discriminate; try reflexivity.
  apply andb_prop in H as [H1 H2]. rewrite IH by exact H2. f_equal. lia.
Qed.

Lemma fit_implies_ideal k r : fits_kind k r = true -> store k r = r.
Proof.
  unfold fits_kind, store. intros H. apply andb_prop in H as [H H3]. apply andb_prop in H as [H1 H2].
  rewrite (map_wrap_id _ _ H1).
  assert (E : match clipb k with Some m => zmin_all r m | None => r end = r)
    by (destruct (clipb k); [now apply zmin_all_id | reflexivity]).
  rewrite E. destruct (cap k) as [c|]; [|reflexivity].
  apply firstn_all2. unfold zlen in H2. lia.
Qed.

Lemma kinds_agree k1 k2 o :
  (forall r, o = Some r -> fits_kind k1 r = true /\ fits_kind k2 r = true) ->
  ostore k1 o = o /\ ostore k2 o = o /\ ostore k1 o = ostore k2 o.
Proof.
  intros H. destruct o as [r|]; cbn; [|repeat split].
  destruct (H r eq_refl) as [H1 H2]. rewrite (fit_implies_ideal _ _ H1), (fit_implies_ideal _ _ H2). repeat split.
Qed.

(* the addressing functions: the w-bit computation stored into any fitting kind is the ideal value *)
Lemma index_functions_kind_independent k w s i :
  pos s -> prod s < 2 ^ w -> inb i s ->
  fits_kind k (strides s) = true -> fits_kind k (compute_indices (compute_offset i (compute_strides s)) s) = true ->
  store k (compute_strides_w w s) = strides s
  /\ product_w w s = prod s
  /\ compute_offset_w w i (compute_strides s) = compute_offset i (compute_strides s)
  /\ store k (compute_indices (compute_offset i (compute_strides s)) s) = i.
Proof.
  intros Hp Hw Hi F1 F2.
  split; [rewrite compute_strides_w_no_wrap, compute_strides_eq by assumption; now apply fit_implies_ideal|].
  split; [now apply product_w_no_wrap|].
  split; [now apply compute_offset_w_no_wrap|].
  rewrite (fit_implies_ideal _ _ F2). now apply unrav_off.
Qed.

Lemma broadcast_kind_independent k1 k2 a b :
  pos a -> pos b ->
  (forall r, broadcast_shape2 a b = Some r -> fits_kind k1 r = true /\ fits_kind k2 r = true) ->
  ostore k1 (broadcast_shape2 a b) = np_broadcast2 a b /\ ostore k2 (broadcast_shape2 a b) = np_broadcast2 a b.
Proof.
  intros Ha Hb H. destruct (kinds_agree k1 k2 _ H) as (E1 & E2 & _).
  rewrite E1, E2, (broadcast_shape2_np a b Ha Hb). split; reflexivity.
Qed.

(* compile-time evaluation applies the same function to the constants' values *)
Lemma constexpr_same {X Y} (f : X -> Y) (c v : X) : v = c -> f v = f c.
Proof. intros ->. reflexivity. Qed.

(* the clipped-operand rule of broadcast_shape (result bounds copied from the clipped operand)
   stores the ideal result (4,5,3) as (4,2,3) *)
Lemma clipped_broadcast_refuted :
  exists k a b r, broadcast_shape2 a b = Some r /\ fits_kind k b = true /\ store k r <> r.
Proof.
  exists {| width := 64; cap := Some 3; clipb := Some [5;2;4] |}, [1;5;1], [4;1;3], [4;5;3].
  split; [reflexivity|]. split; [reflexivity|]. vm_compute. discriminate.
Qed.
