(* Properties_C16.v — C16: linear-algebra routines equal their mathematical definitions.
   Statements only.  Scalars: any type A with zero / add / mul such that add is associative
   and zero is right-neutral (the code sums the products in index order k = 0,1,..,K-1 starting
   from the first product; no commutativity or distributivity is used or needed).
   `agrees m v` = same shape and the same element at every in-bounds index.
   Every statement holds for every rank and all positive extents. *)
From NM Require Import Base Index Broadcast BroadcastProofs Linalg LinalgProofs Dtype LinalgDtype.
Local Open Scope Z_scope.

Section C16.
Variable A : Type.
Variable zero : A.
Variables add mul : A -> A -> A.
Hypothesis add_assoc : forall x y z, add (add x y) z = add x (add y z).
Hypothesis add_0_r : forall x, add x zero = x.

(* index::shape_matmul is NumPy's rule: batch shapes broadcast, a 1-d operand on either side is promoted
   and the added axis removed, the contracted extents must agree — refusal (None) included *)
Theorem C16_matmul_shape_spec : forall a b, (1 <= length a)%nat -> (1 <= length b)%nat -> pos a -> pos b ->
  shape_matmul a b = np_matmul_shape a b.
Proof. exact shape_matmul_spec. Qed.

(* view::matmul, operands of any rank >= 2 (batch broadcasting included): element (bi, r, c) is
   sum_{k<K} a[bcast_a(bi), r, k] * b[bcast_b(bi), k, c] *)
Theorem C16_matmul_elem_spec : forall sa sb fa fb s i,
  (2 <= length sa)%nat -> (2 <= length sb)%nat -> pos sa -> pos sb ->
  shape_matmul sa sb = Some s -> inb i s ->
  matmul_elem A zero add mul sa sb fa fb i = np_matmul_elem A zero add mul sa sb fa fb i.
Proof. exact (matmul_elem_spec A zero add mul add_assoc add_0_r). Qed.

Theorem C16_vecdot_spec : forall sa sb fa fb v, pos sa -> pos sb ->
  np_vecdot A zero add mul sa sb fa fb = Some v ->
  exists m, vecdot A zero add mul sa sb fa fb = Ok m /\ agrees A m v.
Proof. exact (vecdot_spec A zero add mul add_assoc add_0_r). Qed.

Theorem C16_inner_spec : forall sa sb fa fb v, pos sa -> pos sb ->
  np_inner A zero add mul sa sb fa fb = Some v ->
  exists m, inner A zero add mul sa sb fa fb = Ok m /\ agrees A m v.
Proof. exact (inner_spec A zero add mul add_assoc add_0_r). Qed.

Theorem C16_dot_spec : forall sa sb fa fb v, pos sa -> pos sb ->
  np_dot A zero add mul sa sb fa fb = Some v ->
  exists m, dot A zero add mul sa sb fa fb = Ok m /\ agrees A m v.
Proof. exact (dot_spec A zero add mul add_assoc add_0_r). Qed.

(* outer needs no law at all: one product per element *)
Theorem C16_outer_spec : forall sa sb fa fb, pos sa -> pos sb ->
  exists m, outer A mul sa sb fa fb = Ok m /\ agrees A m (np_outer A mul sa sb fa fb).
Proof. exact (outer_spec A mul). Qed.

(* view::matmulv2 (the tile/reshape/transpose/reshape/multiply/sum pipeline), operands of rank >= 2: it yields a view
   of NumPy's shape whose elements are the same defining sums — hence equal to view::matmul element by element *)
Theorem C16_matmul_v2_spec : forall sa sb fa fb s,
  (2 <= length sa)%nat -> (2 <= length sb)%nat -> pos sa -> pos sb ->
  np_matmul_shape sa sb = Some s ->
  exists m, matmul_v2 A zero add mul sa sb fa fb = Ok m /\ vshape m = s /\
    forall i, inb i s -> vat m i = np_matmul_elem A zero add mul sa sb fa fb i
                         /\ vat m i = matmul_elem A zero add mul sa sb fa fb i.
Proof. exact (matmul_v2_v1_spec A zero add mul add_assoc add_0_r). Qed.

(* PARTIAL — tensordot (explicit, normalised axes; the integer form is the special case handled by the same pipeline):
   proved: the view is produced and has NumPy's shape.  NOT proved (correspondence only): the elements. *)
Theorem C16_tensordot_shape_partial : forall sa sb fa fb la lb s, (1 <= length sa)%nat -> pos sa -> pos sb ->
  np_tensordot_shape sa sb la lb = Some s ->
  exists m, tensordot_gen A zero add mul sa sb fa fb
              (tdot_transpose (length sa) la) (tdot_transpose (length sb) lb) (length la) = Ok m
            /\ vshape m = s.
Proof. exact (tensordot_shape_partial A zero add mul). Qed.

(* PARTIAL — kron: proved: a returned view has NumPy's shape (the shape helper kron_dst_reshape is NumPy's rule).
   NOT proved (correspondence only): that a view is always returned, and the elements. *)
Theorem C16_kron_shape_partial : forall sa sb fa fb m, pos sa -> pos sb ->
  kron A mul sa sb fa fb = Ok m -> vshape m = np_kron_shape sa sb.
Proof. exact (kron_shape_partial A mul). Qed.

(* diagonal / trace: ANY offset (either sign, beyond the extent included: the diagonal is then empty), any pair of
   distinct axes of either sign; trace needs a non-empty diagonal (the empty case is the remaining finding).
   These describe the code with the repair fixes/C16_diagonal_offset.diff applied. *)
Theorem C16_diagonal_spec : forall s f off ax1 ax2 a1 a2 v,
  norm_axis (length s) ax1 = Some a1 -> norm_axis (length s) ax2 = Some a2 ->
  np_diagonal A s f off a1 a2 = Some v ->
  exists m, diagonal A s f off ax1 ax2 = Ok m /\ agrees A m v.
Proof. exact (diagonal_spec A). Qed.

Theorem C16_trace_spec : forall s f off ax1 ax2 a1 a2 v,
  norm_axis (length s) ax1 = Some a1 -> norm_axis (length s) ax2 = Some a2 ->
  1 <= np_diag_len s off a1 a2 ->
  np_trace A zero add s f off a1 a2 = Some v ->
  exists m, trace A zero add s f off ax1 ax2 = Ok m /\ agrees A m v.
Proof. exact (trace_spec A zero add add_assoc add_0_r). Qed.

End C16.
Print Assumptions C16_matmul_shape_spec.
Print Assumptions C16_matmul_elem_spec.
Print Assumptions C16_vecdot_spec.
Print Assumptions C16_inner_spec.
Print Assumptions C16_matmul_v2_spec.
Print Assumptions C16_tensordot_shape_partial.
Print Assumptions C16_kron_shape_partial.
Print Assumptions C16_dot_spec.
Print Assumptions C16_outer_spec.
Print Assumptions C16_diagonal_spec.
Print Assumptions C16_trace_spec.

(* the arguments a caller may omit: the header's default template arguments are NumPy's documented defaults
   (numpy.trace / numpy.diagonal: offset=0, axis1=0, axis2=1 — the FIRST two axes; numpy.tensordot: axes=2).
   The left sides are the model of the headers' template defaults and are compared with the real defaulted calls
   (trace(a), trace(a,off), trace(a,off,ax1), diagonal likewise, tensordot(a,b)) by the "forms" stream on rank 2..4 inputs. *)
Theorem C16_default_arguments :
  (default_offset, default_axis1, default_axis2, default_tensordot_axes)
  = (np_default_offset, np_default_axis1, np_default_axis2, np_default_tensordot_axes).
Proof. reflexivity. Qed.
Print Assumptions C16_default_arguments.

(* ---------- element types of the two operands (finite type set: decided by exhaustive computation) ----------
   the result element type the model derives from the headers (view::matmul: meta::common_type of the two element types;
   matmulv2 / dot / inner / vecdot / tensordot / outer / kron: the C++ type of a*b, kept by the sum; trace / diagonal: the
   operand's type) equals the Spec: NumPy's result_type (trace: NumPy's accumulator type) except on the explicitly listed
   pairs of LinalgDtype.diverges_* where nmtools' rule gives another type; the lists are tight. *)
Theorem C16_result_dtype_spec : forall rt a b, In a used_dtypes -> In b used_dtypes ->
  model_dtype rt a b = spec_dtype rt a b.
Proof. exact model_dtype_spec. Qed.
Print Assumptions C16_result_dtype_spec.

Theorem C16_result_dtype_numpy_divergences_tight :
  forallb (fun e => let '(a, b, r) := e in negb (dtype_eqb r (np_result_type a b))) (diverges_matmul ++ diverges_sumprod) = true
  /\ forallb (fun e => let '(a, b, r) := e in negb (dtype_eqb r (np_accumulate_type a))) diverges_trace = true.
Proof. exact diverges_tables_tight. Qed.
Print Assumptions C16_result_dtype_numpy_divergences_tight.

(* view::matmul's result type is floating exactly when an operand is, and for integer operands never narrower than either:
   a wider or floating RIGHT operand is never narrowed to the left one (the seeded change C16r3 broke exactly this) *)
Theorem C16_matmul_dtype_not_narrower : forall a b, In a used_dtypes -> In b used_dtypes ->
  (is_float (model_dtype RMatmul a b) = is_float a || is_float b)
  /\ (is_float a || is_float b = false -> bits a <= bits (model_dtype RMatmul a b) /\ bits b <= bits (model_dtype RMatmul a b)).
Proof. exact matmul_dtype_not_narrower. Qed.
Print Assumptions C16_matmul_dtype_not_narrower.

(* ---------- where the faithful model violates the full statement (known findings) ---------- *)
Definition iota (s : list Z) (i : list Z) : Z := horner 0 i s + 1.

(* view::matmul with a 1-d operand: NumPy defines the product, the code goes out of range *)
Theorem C16_matmul_v1_1d_refuted : exists sa sb,
  pos sa /\ pos sb /\ np_matmul_shape sa sb = Some [1]
  /\ z_matmul_v1 sa sb (iota sa) (iota sb) = Trap.
Proof. exists [1], [1; 1]. repeat split; try (repeat constructor; lia). Qed.
Print Assumptions C16_matmul_v1_1d_refuted.

Theorem C16_trace_empty_refuted : exists s off,
  pos s /\ option_map (@vshape Z) (z_np_trace s (iota s) off 0 1) = Some [] /\ z_trace s (iota s) off 0 1 = Trap.
Proof. exists [1; 1], 1. repeat split; try (repeat constructor; lia). Qed.
Print Assumptions C16_trace_empty_refuted.

(* the same for an offset beyond the extent (empty diagonal after clamping) *)
Theorem C16_trace_empty_beyond_refuted : exists s off,
  pos s /\ option_map (@vshape Z) (z_np_trace s (iota s) off 0 1) = Some [] /\ z_trace s (iota s) off 0 1 = Trap.
Proof. exists [2; 3], (-3). repeat split; try (repeat constructor; lia). Qed.
Print Assumptions C16_trace_empty_beyond_refuted.

(* operand shapes NumPy rejects: view::matmul / array::matmul unwrap the empty shape_matmul result (trap, not Nothing) *)
Theorem C16_matmul_rejected_shapes_trap_refuted : exists sa sb,
  pos sa /\ pos sb /\ np_matmul_shape sa sb = None /\ z_matmul_v1 sa sb (iota sa) (iota sb) = Trap.
Proof. exists [1; 1], [2; 1]. repeat split; try (repeat constructor; lia). Qed.
Print Assumptions C16_matmul_rejected_shapes_trap_refuted.

(* contraction length 1 against k: NumPy rejects; inner / vecdot / matmulv2 / tensordot stretch the unit extent and return a view
   (view::dot refuses: its reshape target carries the other operand's contraction length) *)
Theorem C16_unit_contraction_accepted_refuted : exists sa sb,
  pos sa /\ pos sb
  /\ np_inner_shape sa sb = None /\ (exists m, z_inner sa sb (iota sa) (iota sb) = Ok m)
  /\ np_vecdot_shape sa sb = None /\ (exists m, z_vecdot sa sb (iota sa) (iota sb) = Ok m)
  /\ np_matmul_shape sa [3; 2] = None /\ (exists m, z_matmul_v2 sa [3; 2] (iota sa) (iota [3; 2]) = Ok m)
  /\ np_tensordot_shape sa [3; 2] [1%nat] [0%nat] = None /\ (exists m, z_tensordot_int sa [3; 2] (iota sa) (iota [3; 2]) 1 = Ok m)
  /\ np_dot_shape sa [3; 2] = None /\ z_dot sa [3; 2] (iota sa) (iota [3; 2]) = Nothing.
Proof.
  exists [2; 1], [2; 3]. repeat split; try (repeat constructor; lia); try (eexists; reflexivity).
Qed.
Print Assumptions C16_unit_contraction_accepted_refuted.

(* ---------- non-vacuity ---------- *)
Example C16_nonvacuous_matmul :
  shape_matmul [2; 1; 2; 3] [3; 3; 2] = Some [2; 3; 2; 2] /\ inb [1; 2; 1; 0] [2; 3; 2; 2]
  /\ matmul_elem Z 0 Z.add Z.mul [2; 1; 2; 3] [3; 3; 2] (iota [2; 1; 2; 3]) (iota [3; 3; 2]) [1; 2; 1; 0]
     = 10 * 13 + 11 * 15 + 12 * 17
  /\ shape_matmul [3] [3; 2] = Some [2] /\ shape_matmul [2; 3] [3] = Some [2] /\ shape_matmul [3] [3] = Some []
  /\ shape_matmul [2; 2; 3] [3; 3; 2] = None.
Proof. repeat split; try reflexivity. repeat constructor; lia. Qed.
Example C16_nonvacuous_vecdot_inner :
  option_map (@vshape Z) (z_np_vecdot [2; 1; 3] [4; 3] (iota [2; 1; 3]) (iota [4; 3])) = Some [2; 4]
  /\ option_map (@vshape Z) (z_np_inner [2; 3] [4; 3] (iota [2; 3]) (iota [4; 3])) = Some [2; 4].
Proof. split; reflexivity. Qed.
Example C16_nonvacuous_trace :
  norm_axis 3 (-1) = Some 2%nat /\ norm_axis 3 0 = Some 0%nat /\ np_diag_len [2; 3; 3] 1 2 0 = 1
  /\ option_map (@vshape Z) (z_np_trace [2; 3; 3] (iota [2; 3; 3]) 1 2 0) = Some [3]
  /\ (exists m, z_diagonal [3; 3] (iota [3; 3]) (-1) 0 1 = Ok m /\ vshape m = [2] /\ vat m [0] = 4 /\ vat m [1] = 8)
  /\ (exists m, z_diagonal [1; 1] (iota [1; 1]) 2 0 1 = Ok m /\ vshape m = [0])
  /\ (exists m, z_trace [3; 3] (iota [3; 3]) (-1) 0 1 = Ok m /\ vshape m = [] /\ vat m [] = 12).
Proof. repeat split; try reflexivity; eexists; repeat split; reflexivity. Qed.
Example C16_nonvacuous_v2_tensordot_kron :
  (exists m, z_matmul_v2 [2; 1; 2; 3] [3; 3; 2] (iota [2; 1; 2; 3]) (iota [3; 3; 2]) = Ok m /\ vshape m = [2; 3; 2; 2]
             /\ vat m [1; 2; 1; 0] = 10 * 13 + 11 * 15 + 12 * 17)
  /\ np_tensordot_shape [2; 3; 4] [4; 5; 3] [2; 1]%nat [0; 2]%nat = Some [2; 5]
  /\ (exists m, z_kron [2] [3; 2] (iota [2]) (iota [3; 2]) = Ok m /\ vshape m = [3; 4]).
Proof. split; [|split]; [eexists; repeat split; reflexivity | reflexivity | eexists; split; reflexivity]. Qed.
