(* Properties_C20.v — C20: array objects keep their invariants under construction,
   resize, element write, copy, assignment, cast and mutable views.
   Statements only; every proof is [exact lemma].  All statements hold for EVERY
   history, rank, extent, capacity, clip bound and both layouts. *)
From NM Require Import Base Index IndexProofs Ndarray NdarrayProofs.
Local Open Scope Z_scope.

(* the invariant: product of the shape = element count, strides_ = compute_strides(shape),
   the offset functor is the one of the layout, the container-kind constraints hold *)
Theorem C20_init_Inv : forall (A : Type) (dflt : A) k L,
  kind_wfb k = true -> Inv A (init dflt k L).
Proof. intros A dflt k L H. exact (Inv_init A dflt k L H). Qed.
Print Assumptions C20_init_Inv.

Theorem C20_step_preserves_Inv : forall (A : Type) (dflt : A) st o,
  op_ok A o -> Inv A st -> Inv A (step dflt st o).
Proof. intros A dflt st o. exact (step_preserves_Inv A dflt st o). Qed.
Print Assumptions C20_step_preserves_Inv.

(* after ANY history (fold over an arbitrary operation list; requests are lists of
   non-negative extents, the right-hand side of an assignment is itself a consistent array) *)
Theorem C20_history_Inv : forall (A : Type) (dflt : A) k L h,
  kind_wfb k = true -> Forall (op_ok A) h -> Inv A (run dflt (init dflt k L) h).
Proof.
  intros A dflt k L h Hk Hh. apply (run_preserves_Inv A dflt h _ Hh). exact (Inv_init A dflt k L Hk).
Qed.
Print Assumptions C20_history_Inv.

Theorem C20_reachable_Inv : forall (A : Type) (dflt : A) k L st,
  kind_wfb k = true -> reachable A dflt k L st ->
  Inv A st /\ snd (st_off st) = layout_strides L (st_shape st).
Proof.
  intros A dflt k L st Hk Hr. pose proof (reachable_Inv A dflt k L st Hk Hr) as HI.
  split; [exact HI|].
  destruct (reachable_kind_layout A dflt k L st Hr) as [E1 E2].
  rewrite <- E2 at 1. exact (Inv_offset_strides A st HI).
Qed.
Print Assumptions C20_reachable_Inv.

(* distinct in-bounds indices address distinct cells of the buffer, every in-bounds index
   addresses a cell, and reading after writing returns the written value at that index
   and the old value everywhere else (C01 applied to the invariant) — every kind, clipped
   shapes and both layouts included *)
Theorem C20_distinct_indices_distinct_cells : forall (A : Type) (st : state A) i j x,
  Inv A st -> inb i (st_shape st) -> inb j (st_shape st) ->
  0 <= st_offset st i < Z.of_nat (length (st_data st))
  /\ (st_offset st i = st_offset st j -> i = j)
  /\ (exists v, get st i = Some v)
  /\ get (write st i x) j = (if list_eq_dec Z.eq_dec j i then Some x else get st j).
Proof.
  intros A st i j x HI Hi Hj.
  destruct (distinct_indices_distinct_cells A st i j HI Hi Hj) as (H1 & H2 & H3).
  split; [exact H1|]. split; [exact H2|]. split; [exact H3|].
  exact (get_write A st i j x HI Hi Hj).
Qed.
Print Assumptions C20_distinct_indices_distinct_cells.

(* a refused resize returns false and leaves shape, strides, offset functor and contents
   unchanged — for every kind, every state (no invariant needed), every request *)
Theorem C20_refused_resize_unchanged : forall (A : Type) (dflt : A) (st : state A) sizes,
  nonneg sizes -> fst (resize dflt st sizes) = false -> resize dflt st sizes = (false, st).
Proof. intros A dflt st sizes. exact (refused_resize_unchanged A dflt st sizes). Qed.
Print Assumptions C20_refused_resize_unchanged.

(* resize accepts exactly the requests that fit the kind (rank fits the shape container,
   count fits the buffer, extents below the clip bounds), and an accepted resize installs
   the requested shape with its strides *)
Theorem C20_resize_accepts_iff_fits : forall (A : Type) (dflt : A) (st : state A) sizes,
  Inv A st -> nonneg sizes ->
  fst (resize dflt st sizes) = fits (st_kind st) sizes
  /\ (fits (st_kind st) sizes = true ->
      st_shape (snd (resize dflt st sizes)) = sizes
      /\ st_strides (snd (resize dflt st sizes)) = compute_strides sizes
      /\ Z.of_nat (length (st_data (snd (resize dflt st sizes)))) = prod sizes).
Proof.
  intros A dflt st sizes HI Hn. rewrite (resize_flag A dflt st sizes Hn), (precheck_fits A st sizes HI).
  split; [reflexivity|]. intros Hf. rewrite <- (precheck_fits A st sizes HI) in Hf.
  destruct (resize_accepted A dflt st sizes Hn Hf) as (d1 & E & Hl & _). rewrite E. cbn.
  split; [reflexivity|]. split; [reflexivity|]. exact Hl.
Qed.
Print Assumptions C20_resize_accepts_iff_fits.

(* cast to another array kind and / or element type: if the target kind holds the shape
   (otherwise the C++ does not instantiate) the result has the same shape and every
   element is the converted source element *)
Theorem C20_cast_preserves : forall (A B : Type) (dfltB : B) (conv : A -> B) (st : state A) k' r,
  nonneg (st_shape st) -> cast dfltB conv st k' = Some r ->
  st_shape r = st_shape st
  /\ forall idx, inb idx (st_shape st) ->
       get r idx = Some (match get st idx with Some x => conv x | None => dfltB end).
Proof.
  intros A B dfltB conv st k' r Hn Hc.
  destruct (cast_preserves A B dfltB conv st k' r Hn Hc) as (H1 & _ & _ & H4). split; assumption.
Qed.
Print Assumptions C20_cast_preserves.

(* writing through a mutable view (ref / flatten / reshape / slice with step <> 0, both
   directions): read-over-write at the view level, and at the source level exactly the
   designated buffer cell changes *)
Theorem C20_write_through : forall (A : Type) v L s (buf : list A) i j x,
  pos s -> Z.of_nat (length buf) = prod s -> view_accepts v s = true ->
  inb i (view_shape v s) -> inb j (view_shape v s) ->
  vget v L s (vset v L s buf i x) j = (if list_eq_dec Z.eq_dec j i then Some x else vget v L s buf j)
  /\ inb (view_index v s i) s
  /\ let c := Z.to_nat (layout_offset L s (view_index v s i)) in
     length (vset v L s buf i x) = length buf
     /\ (c < length buf)%nat
     /\ nth_error (vset v L s buf i x) c = Some x
     /\ (forall k, k <> c -> nth_error (vset v L s buf i x) k = nth_error buf k).
Proof.
  intros A v L s buf i j x Hs Hl Hacc Hi Hj.
  split; [exact (view_write_through v L s buf i j x Hs Hl Hacc Hi Hj)|].
  pose proof (view_index_inb v s i Hs Hacc Hi) as Hq.
  split; [exact Hq|]. exact (set_changes_one_cell A L s buf (view_index v s i) x Hl Hq).
Qed.
Print Assumptions C20_write_through.

(* the index map of every accepted view is injective on the view's index space *)
Theorem C20_view_index_injective : forall v s a b, pos s -> view_accepts v s = true ->
  inb a (view_shape v s) -> inb b (view_shape v s) -> view_index v s a = view_index v s b -> a = b.
Proof. exact view_index_inj. Qed.
Print Assumptions C20_view_index_injective.

(* legacy classes *)
Theorem C20_hybrid_ndarray : forall (A : Type) (dflt : A) mx dm,
  (1 <= dm)%nat ->
  h_Inv A (h_init dflt mx dm)
  /\ forall st sizes, h_Inv A st ->
       (fst (h_resize st sizes) = false -> h_resize st sizes = (false, st))
       /\ h_Inv A (snd (h_resize st sizes))
       /\ fst (h_resize st sizes) = ((length sizes =? h_dim st)%nat && (prod sizes <=? Z.of_nat (h_max st))).
Proof.
  intros A dflt mx dm Hd. split; [exact (h_init_Inv A dflt mx dm Hd)|].
  intros st sizes. exact (h_resize_spec A st sizes).
Qed.
Print Assumptions C20_hybrid_ndarray.

Theorem C20_dynamic_ndarray : forall (A : Type) (dflt : A) (st : dstate A) sizes i x,
  nonneg sizes ->
  d_Inv A (d_init dflt)
  /\ d_Inv A (d_resize dflt st sizes) /\ d_shape (d_resize dflt st sizes) = sizes
  /\ (d_Inv A st -> d_Inv A (d_write st i x)).
Proof.
  intros A dflt st sizes i x Hn. destruct (d_resize_Inv A dflt st sizes Hn) as [H1 H2].
  split; [exact (d_init_Inv A dflt)|]. split; [exact H1|]. split; [exact H2|]. exact (d_write_Inv A st i x).
Qed.
Print Assumptions C20_dynamic_ndarray.

(* ---------- refutations (the faithful model violates the full statement) ---------- *)

(* strides() of a column-major array does not match the layout: after resize(2,3) the
   member strides_ is (3,1) while the layout's strides are (1,2) *)
Theorem C20_strides_accessor_colmajor_refuted :
  exists st : state Z, reachable Z 0 (mkKind SDynamic BDynamic) ColMajor st
    /\ st_strides st <> layout_strides ColMajor (st_shape st)
    /\ snd (st_off st) = layout_strides ColMajor (st_shape st).
Proof.
  exists (snd (resize 0 (init 0 (mkKind SDynamic BDynamic) ColMajor) [2; 3])).
  split; [apply r_resize; [apply r_init | repeat constructor; lia]|].
  split; [vm_compute; discriminate | vm_compute; reflexivity].
Qed.
Print Assumptions C20_strides_accessor_colmajor_refuted.
Theorem C20_strides_accessor_on_domain : forall (A : Type) (dflt : A) k st,
  kind_wfb k = true -> reachable A dflt k RowMajor st -> st_strides st = layout_strides RowMajor (st_shape st).
Proof.
  intros A dflt k st Hk Hr. destruct (reachable_Inv A dflt k RowMajor st Hk Hr) as (_ & Hs & _). exact Hs.
Qed.
Print Assumptions C20_strides_accessor_on_domain.

(* ---------- non-vacuity ---------- *)
Definition k_fd := mkKind (SFixedDim 2) BDynamic.           (* std::array<size_t,2> shape, std::vector buffer *)
Definition k_df := mkKind SDynamic (BFixed 6).              (* std::vector shape, std::array<T,6> buffer *)
Definition k_bb := mkKind (SBounded 3) (BBounded 12).
Definition k_cl := mkKind (SClipped [3; 4]) (BBounded 12).

Example C20_nonvacuous_kinds : kind_wfb k_fd = true /\ kind_wfb k_df = true /\ kind_wfb k_bb = true /\ kind_wfb k_cl = true.
Proof. repeat split. Qed.
(* the two probes of DESIGN 6 #7 are refused and leave the state untouched; accepted requests change it *)
Example C20_nonvacuous_refusal :
  let s1 := snd (resize 0 (init 0 k_fd RowMajor) [2; 3]) in
  resize 0 s1 [2; 3; 4] = (false, s1) /\ st_shape s1 = [2; 3] /\ length (st_data s1) = 6%nat
  /\ resize 0 (init 0 k_df RowMajor) [2; 3; 4] = (false, init 0 k_df RowMajor)
  /\ fst (resize 0 (init 0 k_df RowMajor) [2; 3]) = true
  /\ fst (resize 0 (init 0 k_bb ColMajor) [2; 2; 2; 2]) = false
  /\ fst (resize 0 (init 0 k_bb ColMajor) [2; 3; 4]) = false
  /\ fst (resize 0 (init 0 k_bb ColMajor) [2; 3; 2]) = true
  /\ fst (resize 0 (init 0 k_cl RowMajor) [4; 3]) = false
  /\ fst (resize 0 (init 0 k_cl RowMajor) [3; 4]) = true.
Proof. vm_compute. repeat split. Qed.
Example C20_nonvacuous_history :
  let h := [Resize [2; 3]; Write [1; 2] 7; Resize [2; 3; 4]; Copy; Write [0; 1] 5; Resize [3; 2]] in
  Forall (op_ok Z) h
  /\ st_shape (run 0 (init 0 k_bb ColMajor) h) = [3; 2]
  /\ st_strides (run 0 (init 0 k_bb ColMajor) h) = [2; 1]
  /\ snd (st_off (run 0 (init 0 k_bb ColMajor) h)) = [1; 3].
Proof. split; [repeat constructor; lia | vm_compute; repeat split]. Qed.
Example C20_nonvacuous_views :
  view_accepts (VSlice [(1, 2, 2); (2, -1, 3)]) [4; 3] = true
  /\ view_index (VSlice [(1, 2, 2); (2, -1, 3)]) [4; 3] [1; 0] = [3; 2]
  /\ view_accepts (VReshape [3; 2]) [2; 3] = true /\ view_index (VReshape [3; 2]) [2; 3] [2; 0] = [1; 1]
  /\ vset (VReshape [3; 2]) ColMajor [2; 3] [0; 1; 2; 3; 4; 5] [2; 0] 9 = [0; 1; 2; 9; 4; 5].
Proof. vm_compute. repeat split. Qed.
Example C20_nonvacuous_cast :
  let src := write (snd (resize 0 (init 0 (mkKind SDynamic BDynamic) ColMajor) [2; 2])) [1; 0] 7 in
  exists r, cast 0 (fun z => z + 1) src k_bb = Some r /\ st_shape r = [2; 2] /\ get r [1; 0] = Some 8 /\ get r [0; 1] = Some 1.
Proof. eexists. vm_compute. repeat split. Qed.
(* column-major array with a clipped shape (the former aliasing witness): offsets of (1,1) and (0,2) differ *)
Example C20_nonvacuous_colmajor_clipped :
  let st := snd (resize 0 (init 0 (mkKind (SClipped [3; 4]) BDynamic) ColMajor) [2; 3]) in
  inb [1; 1] (st_shape st) /\ inb [0; 2] (st_shape st)
  /\ st_offset st [1; 1] = 3 /\ st_offset st [0; 2] = 4 /\ snd (st_off st) = [1; 2].
Proof. vm_compute. repeat split; repeat constructor; lia. Qed.
Example C20_nonvacuous_dynamic_default : d_shape (d_init 0) = [] /\ d_data (d_init 0) = [0] /\ d_numel (d_init 0) = Some 1.
Proof. repeat split. Qed.
