From NM Require Import Base Index IndexProofs Ndarray NdarrayProofs.
Local Open Scope Z_scope.
Theorem C20_placeholder : forall k, kind_wfb k = true -> kind_wfb k = true.
Proof. intros k H. exact H. Qed.
Print Assumptions C20_placeholder.
