(* Base.v — shared vocabulary: products, positivity, in-bounds, integer ranges,
   machine-width wrap-around.  Definitions only plus small generic lemmas;
   stdlib only, no axioms. *)
From Coq Require Export List ZArith Lia Bool Arith.
Export ListNotations.
Local Open Scope Z_scope.

(* ---------- mathematical vocabulary used by all Specs ---------- *)

Fixpoint prod (s : list Z) : Z :=
  match s with [] => 1 | n :: t => n * prod t end.

Definition pos (s : list Z) : Prop := Forall (fun n => 1 <= n) s.
Definition posb (s : list Z) : bool := forallb (fun n => 1 <=? n) s.

Inductive inb : list Z -> list Z -> Prop :=
| inb_nil : inb [] []
| inb_cons i n is s : 0 <= i < n -> inb is s -> inb (i :: is) (n :: s).

Fixpoint inbb (i s : list Z) : bool :=
  match i, s with
  | [], [] => true
  | x :: i', n :: s' => (0 <=? x) && (x <? n) && inbb i' s'
  | _, _ => false
  end.

(* [0; 1; ...; n-1] as integers *)
Definition zs (n : nat) : list Z := map Z.of_nat (seq 0 n).
Definition zrange (n : Z) : list Z := zs (Z.to_nat n).

(* nth with default 0 on Z lists, Z-indexed *)
Definition znth (l : list Z) (k : Z) : Z := nth (Z.to_nat k) l 0.
Definition zlen {A} (l : list A) : Z := Z.of_nat (length l).

(* ---------- machine arithmetic ---------- *)
Definition wrap (w : Z) (z : Z) : Z := z mod 2 ^ w.            (* unsigned w-bit *)
Definition swrap (w : Z) (z : Z) : Z :=                          (* two's complement *)
  let m := z mod 2 ^ w in if m <? 2 ^ (w - 1) then m else m - 2 ^ w.

(* ---------- generic lemmas ---------- *)
Lemma posb_pos s : posb s = true <-> pos s.
Proof.
  unfold posb, pos. rewrite forallb_forall, Forall_forall.
  split; intros H x Hx; specialize (H x Hx); lia.
Qed.

Lemma inbb_inb i : forall s, inbb i s = true <-> inb i s.
Proof.
  induction i as [|x i IH]; intros [|n s]; simpl; split; intros H;
    try constructor; try discriminate; try (inversion H; fail).
  - apply andb_prop in H as [H1 H2]. apply andb_prop in H1 as [H0 H1]. lia.
  - apply andb_prop in H as [_ H2]. now apply IH.
  - inversion H; subst. rewrite (proj2 (IH s)) by assumption.
    replace (0 <=? x) with true by lia. replace (x <? n) with true by lia. reflexivity.
Qed.

Lemma prod_pos s : pos s -> 1 <= prod s.
Proof. induction 1; simpl; nia. Qed.

Lemma prod_app a b : prod (a ++ b) = prod a * prod b.
Proof. induction a; simpl; [destruct (prod b); reflexivity | rewrite IHa; ring]. Qed.

Lemma pos_app a b : pos (a ++ b) <-> pos a /\ pos b.
Proof. unfold pos. apply Forall_app. Qed.

Lemma inb_length i s : inb i s -> length i = length s.
Proof. induction 1; simpl; congruence. Qed.

Lemma inb_app i1 s1 i2 s2 : inb i1 s1 -> inb i2 s2 -> inb (i1 ++ i2) (s1 ++ s2).
Proof. induction 1; simpl; intros; [assumption | constructor; auto]. Qed.

Lemma in_zs r n : In r (zs n) <-> 0 <= r < Z.of_nat n.
Proof.
  unfold zs. rewrite in_map_iff. split.
  - intros [k [<- Hk]]. apply in_seq in Hk. lia.
  - intros H. exists (Z.to_nat r). split; [lia | apply in_seq; lia].
Qed.

Lemma zs_length n : length (zs n) = n.
Proof. unfold zs. now rewrite map_length, seq_length. Qed.

Lemma zs_S n : zs (S n) = zs n ++ [Z.of_nat n].
Proof. unfold zs. rewrite seq_S, map_app. reflexivity. Qed.

Lemma wrap_small w z : 0 <= z < 2 ^ w -> wrap w z = z.
Proof. intros. unfold wrap. now apply Z.mod_small. Qed.
