(* ContainersProofs.v — lemmas about Containers.v (C19). *)
From NM Require Import Base Index Containers.
Local Open Scope nat_scope.

(* ---------- lists ---------- *)
Lemma nth_firstn {A} (l : list A) : forall n i, nth_error (firstn n l) i = if i <? n then nth_error l i else None.
Proof.
  induction l as [|x l IH]; intros n i.
  - rewrite firstn_nil. destruct (i <? n); destruct i; reflexivity.
  - destruct n as [|n]; [destruct i; reflexivity|]. destruct i as [|i]; [reflexivity|].
    change (nth_error (firstn n l) i = if i <? n then nth_error l i else None). apply IH.
Qed.
Lemma nth_repeat {A} (a : A) n i : nth_error (repeat a n) i = if i <? n then Some a else None.
Proof.
  destruct (Nat.ltb_spec i n); [now apply nth_error_repeat|].
  apply nth_error_None. rewrite repeat_length. lia.
Qed.
Lemma nth_skipn {A} (l : list A) : forall n i, nth_error (skipn n l) i = nth_error l (n + i).
Proof. intros n. revert l. induction n as [|n IH]; intros l i; [reflexivity|]. destruct l; simpl; [now destruct i | apply IH]. Qed.
Lemma nth_app {A} (l1 l2 : list A) i :
  nth_error (l1 ++ l2) i = if i <? length l1 then nth_error l1 i else nth_error l2 (i - length l1).
Proof. destruct (Nat.ltb_spec i (length l1)); [now apply nth_error_app1 | now apply nth_error_app2]. Qed.
Lemma nth_upd {A} (l : list A) : forall k x i,
  nth_error (upd l k x) i = if (i =? k) && (k <? length l) then Some x else nth_error l i.
Proof.
  induction l as [|h l IH]; intros k x i.
  - destruct k; simpl; rewrite andb_false_r; reflexivity.
  - destruct k as [|k], i as [|i]; try reflexivity.
    change (nth_error (upd l k x) i = if (i =? k) && (k <? length l) then Some x else nth_error l i). apply IH.
Qed.
Lemma upd_len {A} (l : list A) : forall k x, length (upd l k x) = length l.
Proof. induction l; intros [|k] x; simpl; auto. Qed.
Lemma nth_copy_cells dst src n i : n <= length src -> n <= length dst ->
  nth_error (copy_cells dst src n) i = if i <? n then nth_error src i else nth_error dst i.
Proof.
  intros Hs Hd. unfold copy_cells. rewrite nth_app, firstn_length, Nat.min_l by lia.
  destruct (Nat.ltb_spec i n).
  - rewrite nth_firstn. now replace (i <? n) with true by (symmetry; apply Nat.ltb_lt; lia).
  - rewrite nth_skipn. f_equal. lia.
Qed.
Lemma copy_cells_length dst src n : n <= length src -> n <= length dst -> length (copy_cells dst src n) = length dst.
Proof. intros. unfold copy_cells. rewrite app_length, firstn_length, skipn_length. lia. Qed.

Lemma fill_cells_length buf a b : a <= length buf -> b <= length buf -> length (fill_cells buf a b) = length buf.
Proof. intros. unfold fill_cells. rewrite !app_length, firstn_length, repeat_length, skipn_length. lia. Qed.
Lemma nth_fill_cells buf a b i : a <= length buf -> b <= length buf ->
  nth_error (fill_cells buf a b) i = if (a <=? i) && (i <? b) then Some (Val 0%Z) else nth_error buf i.
Proof.
  intros Ha Hb. unfold fill_cells. rewrite nth_app, firstn_length, Nat.min_l by lia.
  destruct (Nat.ltb_spec i a) as [H|H].
  - rewrite nth_firstn. replace (i <? a) with true by (symmetry; apply Nat.ltb_lt; lia).
    now replace (a <=? i) with false by (symmetry; apply Nat.leb_gt; lia).
  - replace (a <=? i) with true by (symmetry; apply Nat.leb_le; lia). cbn [andb].
    rewrite nth_app, repeat_length. destruct (Nat.ltb_spec i b) as [H2|H2].
    + replace (i - a <? b - a) with true by (symmetry; apply Nat.ltb_lt; lia). rewrite nth_repeat.
      now replace (i - a <? b - a) with true by (symmetry; apply Nat.ltb_lt; lia).
    + replace (i - a <? b - a) with false by (symmetry; apply Nat.ltb_ge; lia). rewrite nth_skipn. f_equal. lia.
Qed.

(* ---------- the heap ---------- *)
Definition HI (h : heap) (P : nat -> Prop) (c : nat) : Prop :=
  bad h = false /\ (forall id, In id (live h) <-> P id) /\ (forall id, In id (live h) -> id < next h) /\
  nalloc h = nfree h + c.

Lemma HI_ext h P Q c : (forall id, P id <-> Q id) -> HI h P c -> HI h Q c.
Proof. intros E (B & L & F & N). repeat split; auto; intros; [apply E, L | apply L, E]; auto. Qed.
Lemma HI_alloc h P c : HI h P c ->
  HI (snd (halloc h)) (fun id => id = next h \/ P id) (S c) /\ ~ P (next h) /\ oob (snd (halloc h)) = oob h.
Proof.
  intros (B & L & F & N). split; [|split]; [|intros HP; apply L, F in HP; lia|reflexivity].
  unfold halloc, HI; simpl. split; [exact B|]. split; [|split].
  - intros id. split.
    + intros [E|H]; [left; now symmetry | right; now apply L].
    + intros [E|H]; [left; now symmetry | right; now apply L].
  - intros id [E|H]; [subst; lia | apply F in H; lia].
  - lia.
Qed.
Lemma existsb_eqb_in id l : existsb (Nat.eqb id) l = true <-> In id l.
Proof. rewrite existsb_exists. split; [intros (x & Hx & E); apply Nat.eqb_eq in E; now subst | intros H; exists id; split; [auto | apply Nat.eqb_refl]]. Qed.
Lemma HI_free h P c id : HI h P (S c) -> P id ->
  HI (hfree h id) (fun x => P x /\ x <> id) c /\ oob (hfree h id) = oob h.
Proof.
  intros (B & L & F & N) HP. unfold hfree.
  replace (existsb (Nat.eqb id) (live h)) with true by (symmetry; apply existsb_eqb_in, L, HP).
  simpl. split; [|reflexivity]. unfold HI; simpl. split; [exact B|]. split; [|split].
  - intros x. split.
    + intros H. apply in_remove in H as [H H']. split; [now apply L | assumption].
    + intros [H1 H2]. apply in_in_remove; [assumption | now apply L].
  - intros x H. apply in_remove in H as [H _]. now apply F.
  - lia.
Qed.
Lemma HI_chk h b P c : HI (chk h b) P c <-> HI h P c.
Proof. unfold chk. destruct b; simpl; tauto. Qed.
Lemma chk_true h : chk h true = h. Proof. reflexivity. Qed.
Lemma HI_empty h P : HI h P 0 -> (forall id, ~ P id) -> live h = [] /\ bad h = false /\ nalloc h = nfree h.
Proof.
  intros (B & L & F & N) E. repeat split; auto; [|lia].
  destruct (live h) as [|x l]; [reflexivity|]. exfalso. apply (E x), L. now left.
Qed.

(* ---------- utl::vector objects against masked contents ---------- *)
Definition ref (buf : list cell) (size : nat) (m : list (option Z)) : Prop :=
  size = length m /\ size <= length buf /\
  forall i v, nth_error m i = Some (Some v) -> nth_error buf i = Some (Val v).
Definition vref (o : vobj) m := ref (vbuf o) (vsize o) m.

Definition m_resize (m : list (option Z)) (n : nat) := firstn n m ++ repeat (Some 0%Z) (n - length m).

Lemma nth_m_resize_some m n i v : nth_error (m_resize m n) i = Some (Some v) ->
  (nth_error m i = Some (Some v) /\ i < n /\ i < length m) \/ (length m <= i /\ i < n /\ v = 0%Z).
Proof.
  unfold m_resize. rewrite nth_app, firstn_length. destruct (Nat.ltb_spec i (Nat.min n (length m))).
  - rewrite nth_firstn. destruct (Nat.ltb_spec i n); [intros E; left; repeat split; auto; lia | discriminate].
  - rewrite nth_repeat. destruct (Nat.ltb_spec (i - Nat.min n (length m)) (n - length m)); [|discriminate].
    intros E. injection E as <-. right. lia.
Qed.
Lemma m_resize_length m n : length (m_resize m n) = n.
Proof. unfold m_resize. rewrite app_length, firstn_length, repeat_length. lia. Qed.

(* owners: this object's block plus the blocks Q of the others *)
Definition own (blk : nat) (Q : nat -> Prop) : nat -> Prop := fun x => x = blk \/ Q x.

Lemma v_new_ok h Q c n size : HI h Q c -> oob h = false -> size <= n ->
  let r := v_new h n size in
  vref (fst r) (repeat None size) /\ HI (snd r) (own (vblk (fst r)) Q) (S c) /\ ~ Q (vblk (fst r)) /\ oob (snd r) = false.
Proof.
  intros H O Hs. unfold v_new. destruct (HI_alloc h Q c H) as (H1 & H2 & H3).
  unfold halloc in *. simpl in *. split; [|split; [|split]].
  - unfold vref, ref. simpl. rewrite !repeat_length. split; [reflexivity|]. split; [lia|].
    intros i v. rewrite nth_repeat. destruct (_ <? _); discriminate.
  - exact H1.
  - exact H2.
  - congruence.
Qed.

Lemma v_resize_ok h o m Q c n : vref o m -> HI h (own (vblk o) Q) (S c) -> ~ Q (vblk o) -> oob h = false ->
  let r := v_resize h o n in
  vref (fst r) (m_resize m n) /\ HI (snd r) (own (vblk (fst r)) Q) (S c) /\ ~ Q (vblk (fst r)) /\ oob (snd r) = false.
Proof.
  intros (Rs & Rl & Rv) H NQ O. unfold v_resize. destruct (Nat.ltb_spec (length (vbuf o)) n) as [Hn|Hn].
  - destruct (HI_alloc _ _ _ H) as (H1 & H2 & H3).
    replace (vsize o <=? length (vbuf o)) with true by (symmetry; apply Nat.leb_le; lia).
    unfold halloc in *. cbn [fst snd] in *. rewrite chk_true.
    match goal with |- context [hfree ?hh (vblk o)] => destruct (HI_free hh _ (S c) (vblk o) H1) as (H4 & H5); [right; now left|] end.
    cbn [vbuf vsize vblk]. split; [|split; [|split]].
    + unfold vref, ref. cbn [vbuf vsize vblk]. split; [now rewrite m_resize_length|]. split.
      * rewrite app_length, firstn_length, repeat_length. lia.
      * intros i v Hi. rewrite nth_app, firstn_length, Nat.min_l by lia.
        apply nth_m_resize_some in Hi as [(Hi & Hin & Hlt)|(Hge & Hin & ->)].
        -- replace (i <? vsize o) with true by (symmetry; apply Nat.ltb_lt; lia).
           rewrite nth_firstn. replace (i <? vsize o) with true by (symmetry; apply Nat.ltb_lt; lia). now apply Rv.
        -- replace (i <? vsize o) with false by (symmetry; apply Nat.ltb_ge; lia).
           rewrite nth_repeat. now replace (i - vsize o <? n - vsize o) with true by (symmetry; apply Nat.ltb_lt; lia).
    + eapply HI_ext; [|exact H4]. intros id. unfold own. split.
      * intros [[->|[->|Hq]] Hne]; auto. contradiction.
      * intros [->|Hq]; [split; [now left|]|split; [right; now right|]].
        -- intros E. apply H2. left. now rewrite <- E.
        -- intros ->. contradiction.
    + intros Hq. apply H2. now right.
    + rewrite H5. simpl. exact O.
  - replace (n <=? length (vbuf o)) with true by (symmetry; apply Nat.leb_le; lia). rewrite chk_true.
    cbn [fst snd vbuf vsize vblk]. split; [|split; [|split]]; auto.
    unfold vref, ref. cbn [vbuf vsize vblk]. split; [now rewrite m_resize_length|].
    split; [rewrite fill_cells_length; lia|].
    intros i v Hi. rewrite nth_fill_cells by lia.
    apply nth_m_resize_some in Hi as [(Hi & Hin & Hlt)|(Hge & Hin & ->)].
    + replace (vsize o <=? i) with false by (symmetry; apply Nat.leb_gt; lia). now apply Rv.
    + replace (vsize o <=? i) with true by (symmetry; apply Nat.leb_le; lia).
      now replace (i <? n) with true by (symmetry; apply Nat.ltb_lt; lia).
Qed.

Lemma v_set_ok h o m Q c i v : vref o m -> HI h (own (vblk o) Q) c -> oob h = false -> i < vsize o ->
  let r := v_set h o i (Val v) in
  vref (fst r) (upd m i (Some v)) /\ HI (snd r) (own (vblk (fst r)) Q) c /\ vblk (fst r) = vblk o /\ oob (snd r) = false.
Proof.
  intros (Rs & Rl & Rv) H O Hi. unfold v_set. cbn [fst snd vbuf vsize vblk].
  replace (i <? length (vbuf o)) with true by (symmetry; apply Nat.ltb_lt; lia). rewrite chk_true.
  split; [|split; [|split]]; auto.
  unfold vref, ref. cbn [vbuf vsize vblk]. rewrite !upd_len. split; [exact Rs|]. split; [exact Rl|].
  intros j w. rewrite !nth_upd. destruct (Nat.eqb_spec j i) as [->|Hne]; simpl.
  - replace (i <? length m) with true by (symmetry; apply Nat.ltb_lt; lia).
    replace (i <? length (vbuf o)) with true by (symmetry; apply Nat.ltb_lt; lia). congruence.
  - apply Rv.
Qed.

Lemma m_resize_grow1 m : m_resize m (length m + 1) = m ++ [Some 0%Z].
Proof. unfold m_resize. rewrite firstn_all2 by lia. replace (length m + 1 - length m) with 1 by lia. reflexivity. Qed.
Lemma vref_weaken_last o m z : vref o (m ++ [Some z]) -> vref o (m ++ [None]).
Proof.
  intros (Rs & Rl & Rv). rewrite app_length in Rs. split; [now rewrite app_length|]. split; [exact Rl|].
  intros i v Hi. apply Rv. rewrite nth_app in *. destruct (i <? length m); [exact Hi|].
  destruct (i - length m) as [|[|?]]; simpl in *; discriminate.
Qed.
Lemma m_resize_nil n : m_resize [] n = repeat (Some 0%Z) n.
Proof. unfold m_resize. rewrite firstn_nil. simpl. now rewrite Nat.sub_0_r. Qed.
Lemma upd_last {A} (m : list A) x y : upd (m ++ [x]) (length m) y = m ++ [y].
Proof. induction m; simpl; [reflexivity | now rewrite IHm]. Qed.

Lemma v_push_ok h o m Q c v : vref o m -> HI h (own (vblk o) Q) (S c) -> ~ Q (vblk o) -> oob h = false ->
  let r := v_push h o v in
  vref (fst r) (m ++ [Some v]) /\ HI (snd r) (own (vblk (fst r)) Q) (S c) /\ ~ Q (vblk (fst r)) /\ oob (snd r) = false.
Proof.
  intros R H NQ O. pose proof R as (Rs & Rl & Rv). unfold v_push.
  assert (E : exists o1 h1, (if length (vbuf o) <? vsize o + 1 then v_resize h o (vsize o + 1)
              else (mkV (vbuf o) (vsize o + 1) (vblk o), h)) = (o1, h1) /\
              vref o1 (m ++ [None]) /\ HI h1 (own (vblk o1) Q) (S c) /\ ~ Q (vblk o1) /\ oob h1 = false).
  { destruct (Nat.ltb_spec (length (vbuf o)) (vsize o + 1)).
    - pose proof (v_resize_ok h o m Q c (vsize o + 1) R H NQ O) as K. simpl in K.
      destruct (v_resize h o (vsize o + 1)) as [o1 h1]. exists o1, h1. split; [reflexivity|].
      rewrite Rs, m_resize_grow1 in K. destruct K as (K1 & K2). split; [exact (vref_weaken_last _ _ _ K1) | exact K2].
    - eexists _, _. split; [reflexivity|]. split; [|split; [|split]]; auto.
      unfold vref, ref. cbn [vbuf vsize vblk]. rewrite app_length. simpl. split; [lia|]. split; [lia|].
      intros i w. rewrite nth_app. destruct (Nat.ltb_spec i (length m)); [apply Rv|].
      destruct (i - length m) as [|[|?]]; simpl; discriminate. }
  destruct E as (o1 & h1 & -> & R1 & H1 & N1 & O1). pose proof R1 as (Rs1 & _).
  rewrite app_length in Rs1. simpl in Rs1.
  assert (Ei : vsize o1 - 1 = length m) by lia. rewrite Ei.
  pose proof (v_set_ok h1 o1 (m ++ [None]) Q (S c) (length m) v R1 H1 O1 ltac:(lia)) as K. cbv zeta in K.
  rewrite upd_last in K. destruct K as (K1 & K2 & K3 & K4).
  split; [exact K1|]. split; [exact K2|]. split; [rewrite K3; exact N1 | exact K4].
Qed.

Lemma v_copy_into_ok h o src ms Q c : vsize o = vsize src -> vsize o <= length (vbuf o) -> vref src ms ->
  HI h Q c -> oob h = false ->
  let r := v_copy_into h o src in
  vref (fst r) ms /\ HI (snd r) Q c /\ vblk (fst r) = vblk o /\ oob (snd r) = false.
Proof.
  intros Es Hl (Rs & Rl & Rv) H O. unfold v_copy_into. cbn [fst snd vbuf vsize vblk].
  replace ((vsize o <=? length (vbuf o)) && (vsize o <=? length (vbuf src))) with true
    by (symmetry; apply andb_true_intro; split; apply Nat.leb_le; lia).
  rewrite chk_true. split; [|split; [|split]]; auto.
  unfold vref, ref. cbn [vbuf vsize vblk]. split; [lia|]. split; [rewrite copy_cells_length; lia|].
  intros i v Hi. assert (i < length ms) by (apply nth_error_Some; congruence).
  rewrite nth_copy_cells by lia. replace (i <? vsize o) with true by (symmetry; apply Nat.ltb_lt; lia). now apply Rv.
Qed.

Lemma v_assign_ok h dst md src ms Q c : vref dst md -> vref src ms -> HI h (own (vblk dst) Q) (S c) -> ~ Q (vblk dst) ->
  oob h = false ->
  let r := v_assign h dst src in
  vref (fst r) ms /\ HI (snd r) (own (vblk (fst r)) Q) (S c) /\ ~ Q (vblk (fst r)) /\ oob (snd r) = false.
Proof.
  intros Rd Rsrc H NQ O. unfold v_assign.
  pose proof (v_resize_ok h dst md Q c (vsize src) Rd H NQ O) as K. simpl in K.
  destruct (v_resize h dst (vsize src)) as [o2 h2]. simpl in K. destruct K as (K1 & K2 & K3 & K4).
  pose proof K1 as (Ks & Kl & _). rewrite m_resize_length in Ks.
  pose proof (v_copy_into_ok h2 o2 src ms _ _ Ks Kl Rsrc K2 K4) as J. cbv zeta in J. destruct J as (J1 & J2 & J3 & J4).
  split; [exact J1|]. split; [rewrite J3; exact J2|]. split; [rewrite J3; exact K3 | exact J4].
Qed.

(* ---------- the two-object system ---------- *)
Definition HI2 (h : heap) (a b : nat) : Prop := HI h (fun x => x = a \/ x = b) 2.
Lemma HI2_sym h a b : HI2 h a b -> HI2 h b a.
Proof. apply HI_ext. intros; tauto. Qed.

(* a fresh object [new] replaces [old] (the old one is destroyed after the new one is built) *)
Lemma replace_ok h new old other :
  HI h (own new (fun x => x = old \/ x = other)) 3 -> new <> old -> new <> other -> old <> other ->
  HI2 (hfree h old) new other /\ oob (hfree h old) = oob h.
Proof.
  intros H N1 N2 N3. destruct (HI_free h _ 2 old H) as (H1 & H2); [right; now left|]. split; [|exact H2].
  eapply HI_ext; [|exact H1]. unfold own. intros x. split.
  - intros [[-> | [-> | ->]] Hne]; auto. contradiction.
  - intros [-> | ->]; split; auto.
Qed.

Definition VI (s : vsys) (m : list (option Z) * list (option Z)) : Prop :=
  vref (oa s) (fst m) /\ vref (ob s) (snd m) /\ HI2 (hp s) (vblk (oa s)) (vblk (ob s)) /\
  vblk (oa s) <> vblk (ob s) /\ oob (hp s) = false.

Definition vmstep := lstep (option Z) (Some 0%Z) (Some 0%Z) Some None.

Lemma VI_init : VI vinit ([], []).
Proof.
  unfold vinit, v_default, v_new, halloc, heap0. simpl. unfold VI, vref, ref, HI2, HI. simpl.
  repeat split; auto; try lia; try (intros i v; destruct i as [|[|[|[|?]]]]; discriminate); intuition lia.
Qed.

Lemma m_resize_eq m n : m_resize m n = l_resize (option Z) (Some 0%Z) None m n.
Proof. reflexivity. Qed.

Lemma VI_step s m o : VI s m -> VI (vstep s o) (vmstep m o).
Proof.
  destruct m as [ma mb]. intros (RA & RB & H & NE & O). cbn [fst snd] in *.
  assert (HA : HI (hp s) (own (vblk (oa s)) (fun x => x = vblk (ob s))) 2) by exact H.
  assert (HB : HI (hp s) (own (vblk (ob s)) (fun x => x = vblk (oa s))) 2) by (apply HI2_sym in H; exact H).
  destruct o; unfold vstep, vmstep, lstep; cbn [fits].
  - (* Default *)
    pose proof (v_new_ok (hp s) _ 2 4 0 H O ltac:(lia)) as K. unfold v_default. cbv zeta in K.
    destruct (v_new (hp s) 4 0) as [a h1]. cbn [fst snd] in K. destruct K as (K1 & K2 & K3 & K4).
    destruct (replace_ok h1 (vblk a) (vblk (oa s)) (vblk (ob s)) K2) as (J1 & J2); auto;
      try (intros E; apply K3; rewrite E; tauto).
    unfold VI, v_destroy. cbn [oa ob hp fst snd]. split; [exact K1|]. split; [exact RB|]. split; [exact J1|].
    split; [intros E; apply K3; rewrite E; tauto | rewrite J2; exact K4].
  - (* Ctor *)
    unfold v_sized.
    pose proof (v_new_ok (hp s) _ 2 n 0 H O ltac:(lia)) as K. cbv zeta in K.
    destruct (v_new (hp s) n 0) as [o1 h1]. cbn [fst snd] in K. destruct K as (K1 & K2 & K3 & K4).
    pose proof (v_resize_ok h1 o1 _ _ 2 n K1 K2 K3 K4) as L. cbv zeta in L.
    destruct (v_resize h1 o1 n) as [a h2]. cbn [fst snd] in L. destruct L as (L1 & L2 & L3 & L4).
    simpl repeat in L1. rewrite m_resize_nil in L1.
    destruct (replace_ok h2 (vblk a) (vblk (oa s)) (vblk (ob s)) L2) as (J1 & J2); auto;
      try (intros E; apply L3; rewrite E; tauto).
    unfold VI, v_destroy. cbn [oa ob hp fst snd]. split; [exact L1|]. split; [exact RB|]. split; [exact J1|].
    split; [intros E; apply L3; rewrite E; tauto | rewrite J2; exact L4].
  - (* Push *)
    pose proof (v_push_ok (hp s) (oa s) ma _ 1 v RA HA ltac:(congruence) O) as K. cbv zeta in K.
    destruct (v_push (hp s) (oa s) v) as [a h1]. cbn [fst snd] in K. destruct K as (K1 & K2 & K3 & K4).
    unfold VI. cbn [oa ob hp fst snd]. split; [exact K1|]. split; [exact RB|]. split; [exact K2|]. split; [exact K3 | exact K4].
  - (* Resize *)
    pose proof (v_resize_ok (hp s) (oa s) ma _ 1 n RA HA ltac:(congruence) O) as K. cbv zeta in K.
    destruct (v_resize (hp s) (oa s) n) as [a h1]. cbn [fst snd] in K. destruct K as (K1 & K2 & K3 & K4).
    unfold VI. cbn [oa ob hp fst snd]. split; [exact K1|]. split; [exact RB|]. split; [exact K2|]. split; [exact K3 | exact K4].
  - (* Write *)
    pose proof RA as (Rs & _). rewrite <- Rs.
    destruct (Nat.ltb_spec i (vsize (oa s))) as [Hi|Hi]; [|unfold VI; cbn [oa ob hp fst snd]; auto].
    pose proof (v_set_ok (hp s) (oa s) ma _ 2 i v RA HA O Hi) as K. cbv zeta in K.
    destruct (v_set (hp s) (oa s) i (Val v)) as [a h1]. cbn [fst snd] in K. destruct K as (K1 & K2 & K3 & K4).
    unfold VI. cbn [oa ob hp fst snd]. split; [exact K1|]. split; [exact RB|]. split; [exact K2|]. split; [rewrite K3; exact NE | exact K4].
  - (* CopyCtor *)
    unfold v_copyctor, v_default.
    pose proof (v_new_ok (hp s) _ 2 4 0 HB O ltac:(lia)) as K. cbv zeta in K.
    destruct (v_new (hp s) 4 0) as [o1 h1]. cbn [fst snd] in K. destruct K as (K1 & K2 & K3 & K4).
    pose proof (v_resize_ok h1 o1 _ _ 2 (vsize (oa s)) K1 K2 K3 K4) as L. cbv zeta in L.
    destruct (v_resize h1 o1 (vsize (oa s))) as [o2 h2]. cbn [fst snd] in L. destruct L as (L1 & L2 & L3 & L4).
    pose proof L1 as (Ls & Ll & _). rewrite m_resize_length in Ls.
    pose proof (v_copy_into_ok h2 o2 (oa s) ma _ _ Ls Ll RA L2 L4) as J. cbv zeta in J.
    destruct (v_copy_into h2 o2 (oa s)) as [b h3]. cbn [fst snd] in J. destruct J as (J1 & J2 & J3 & J4).
    rewrite <- J3 in *.
    unfold own in L3.
    destruct (replace_ok h3 (vblk b) (vblk (ob s)) (vblk (oa s)) J2) as (M1 & M2);
      try (intros E; apply L3; rewrite E; tauto); try congruence.
    unfold VI, v_destroy. cbn [oa ob hp fst snd]. split; [exact RA|]. split; [exact J1|]. split; [apply HI2_sym; exact M1|].
    split; [intros E; apply L3; rewrite <- E; tauto | rewrite M2; exact J4].
  - (* AssignAB *)
    pose proof (v_assign_ok (hp s) (ob s) mb (oa s) ma _ 1 RB RA HB ltac:(congruence) O) as K. cbv zeta in K.
    destruct (v_assign (hp s) (ob s) (oa s)) as [b h1]. cbn [fst snd] in K. destruct K as (K1 & K2 & K3 & K4).
    unfold VI. cbn [oa ob hp fst snd]. split; [exact RA|]. split; [exact K1|]. split; [apply HI2_sym; exact K2|].
    split; [intros E; apply K3; now rewrite <- E | exact K4].
  - (* AssignBA *)
    pose proof (v_assign_ok (hp s) (oa s) ma (ob s) mb _ 1 RA RB HA ltac:(congruence) O) as K. cbv zeta in K.
    destruct (v_assign (hp s) (oa s) (ob s)) as [a h1]. cbn [fst snd] in K. destruct K as (K1 & K2 & K3 & K4).
    unfold VI. cbn [oa ob hp fst snd]. split; [exact K1|]. split; [exact RB|]. split; [exact K2|]. split; [exact K3 | exact K4].
  - (* SelfAssign *)
    pose proof (v_assign_ok (hp s) (oa s) ma (oa s) ma _ 1 RA RA HA ltac:(congruence) O) as K. cbv zeta in K.
    destruct (v_assign (hp s) (oa s) (oa s)) as [a h1]. cbn [fst snd] in K. destruct K as (K1 & K2 & K3 & K4).
    unfold VI. cbn [oa ob hp fst snd]. split; [exact K1|]. split; [exact RB|]. split; [exact K2|]. split; [exact K3 | exact K4].
  - (* Flip *)
    unfold VI. cbn [oa ob hp fst snd]. split; [exact RB|]. split; [exact RA|]. split; [apply HI2_sym; exact H|]. split; [congruence | exact O].
Qed.

Lemma fold_inv {S M O} (I : S -> M -> Prop) (f : S -> O -> S) (g : M -> O -> M) :
  (forall s m o, I s m -> I (f s o) (g m o)) -> forall ops s m, I s m -> I (fold_left f ops s) (fold_left g ops m).
Proof. intros Hs. induction ops as [|o ops IH]; intros s m H; simpl; auto. Qed.

Lemma VI_run ops : VI (vrun ops) (vmask_run ops).
Proof. unfold vrun, vmask_run, lrun. apply (fold_inv VI vstep vmstep VI_step). exact VI_init. Qed.

Lemma VI_finish s m : VI s m ->
  let h := vfinish s in live h = [] /\ bad h = false /\ oob h = false /\ nalloc h = nfree h.
Proof.
  intros (RA & RB & H & NE & O). unfold vfinish, v_destroy.
  destruct (HI_free (hp s) _ 1 (vblk (oa s)) H) as (H1 & O1); [now left|].
  destruct (HI_free (hfree (hp s) (vblk (oa s))) _ 0 (vblk (ob s)) H1) as (H2 & O2); [split; [now right | congruence]|].
  destruct (HI_empty _ _ H2) as (E1 & E2 & E3); [intros id [[[-> | ->] N1] N2]; congruence|].
  cbv zeta. repeat split; auto. congruence.
Qed.

(* ---------- parametricity of the list spec: masked contents vs std contents ---------- *)
Section Param.
  Variables A B : Type.
  Variable R : A -> B -> Prop.
  Variables (fc fr : A) (fc' fr' : B) (inj : Z -> A) (inj' : Z -> B) (cap : option nat).
  Hypothesis Rc : R fc fc'.
  Hypothesis Rr : R fr fr'.
  Hypothesis Ri : forall z, R (inj z) (inj' z).

  Lemma F2_length (l : list A) (l' : list B) : Forall2 R l l' -> length l = length l'.
  Proof. induction 1; simpl; congruence. Qed.
  Lemma F2_firstn n : forall (l : list A) (l' : list B), Forall2 R l l' -> Forall2 R (firstn n l) (firstn n l').
  Proof. induction n; intros l l' H; simpl; [constructor|]. destruct H; constructor; auto. Qed.
  Lemma F2_repeat (x : A) (y : B) n : R x y -> Forall2 R (repeat x n) (repeat y n).
  Proof. intros H. induction n; simpl; constructor; auto. Qed.
  Lemma F2_upd (l : list A) (l' : list B) : Forall2 R l l' -> forall k x y, R x y -> Forall2 R (upd l k x) (upd l' k y).
  Proof. induction 1; intros [|k] x0 y0 H1; simpl; constructor; auto. Qed.

  Lemma lstep_param a b a' b' o : Forall2 R a a' -> Forall2 R b b' ->
    Forall2 R (fst (lstep A fc fr inj cap (a, b) o)) (fst (lstep B fc' fr' inj' cap (a', b') o)) /\
    Forall2 R (snd (lstep A fc fr inj cap (a, b) o)) (snd (lstep B fc' fr' inj' cap (a', b') o)).
  Proof.
    intros Ha Hb. pose proof (F2_length _ _ Ha) as La.
    destruct o; cbn [lstep fst snd]; unfold l_resize; rewrite <- ?La; split.
    all: try assumption.
    all: try (destruct (fits cap _)); try (destruct (_ <? _)); try assumption.
    all: try (now apply F2_repeat).
    all: try (now constructor).
    all: try (apply Forall2_app; [assumption | repeat constructor; apply Ri]).
    all: try (apply Forall2_app; [now apply F2_firstn | now apply F2_repeat]).
    all: try (apply F2_upd; auto).
  Qed.
  Lemma lrun_param ops :
    Forall2 R (fst (lrun A fc fr inj cap ops)) (fst (lrun B fc' fr' inj' cap ops)) /\
    Forall2 R (snd (lrun A fc fr inj cap ops)) (snd (lrun B fc' fr' inj' cap ops)).
  Proof.
    unfold lrun.
    apply (fold_inv (fun s s' => Forall2 R (fst s) (fst s') /\ Forall2 R (snd s) (snd s'))
             (lstep A fc fr inj cap) (lstep B fc' fr' inj' cap)).
    - intros [a b] [a' b'] o [Ha Hb]. now apply lstep_param.
    - split; constructor.
  Qed.
End Param.

Lemma vmask_std ops :
  Forall2 mask_ok (fst (vmask_run ops)) (fst (std_run None ops)) /\ Forall2 mask_ok (snd (vmask_run ops)) (snd (std_run None ops)).
Proof. apply lrun_param; simpl; auto. Qed.
Lemma smask_std Cap ops :
  Forall2 mask_ok (fst (smask_run Cap ops)) (fst (std_run (Some Cap) ops)) /\
  Forall2 mask_ok (snd (smask_run Cap ops)) (snd (std_run (Some Cap) ops)).
Proof. apply lrun_param; simpl; auto. Qed.

(* where every visible cell is determined, the physical contents ARE the std contents *)
Lemma determined_contents buf size m l : ref buf size m -> Forall2 mask_ok m l -> determined m = true ->
  firstn size buf = map Val l.
Proof.
  intros (Rs & Rl & Rv) HF HD. subst size. revert buf Rl Rv. induction HF as [|x z m l Hx HF IH]; intros buf Rl Rv.
  - reflexivity.
  - simpl in HD. destruct x as [v|]; [|discriminate]. simpl in Hx. subst z.
    destruct buf as [|c buf]; [simpl in Rl; lia|]. pose proof (Rv 0 v eq_refl) as E. simpl in E. injection E as ->.
    simpl. f_equal. apply IH; [assumption | simpl in Rl; lia |]. intros i w Hi. exact (Rv (S i) w Hi).
Qed.

(* ---------- utl::static_vector ---------- *)
Section SV.
  Variable Cap : nat.
  Definition sref (o : sobj) (m : list (option Z)) : Prop := ref (sbuf o) (ssize o) m /\ length (sbuf o) = Cap.
  Definition SI (s : sobj * sobj) (m : list (option Z) * list (option Z)) : Prop := sref (fst s) (fst m) /\ sref (snd s) (snd m).
  Definition smstep := lstep (option Z) (Some 0%Z) (Some 0%Z) Some (Some Cap).

  Lemma sref_default : sref (s_default Cap) [].
  Proof. unfold sref, ref, s_default. simpl. rewrite repeat_length. repeat split; auto; try lia. intros [|i] v; discriminate. Qed.

  (* an accepted resize *)
  Lemma s_resize_fits o m n : n <= Cap -> sref o m -> sref (s_resize Cap o n) (m_resize m n).
  Proof.
    intros Hn ((Rs & Rl & Rv) & L). unfold s_resize. replace (n <=? Cap) with true by (symmetry; apply Nat.leb_le; lia).
    split; cbn [sbuf ssize]; [|rewrite fill_cells_length; lia].
    split; [now rewrite m_resize_length|]. split; [rewrite fill_cells_length; lia|].
    intros i v Hi. rewrite nth_fill_cells by lia.
    apply nth_m_resize_some in Hi as [(Hi & Hin & Hlt)|(Hge & Hin & ->)].
    - replace (ssize o <=? i) with false by (symmetry; apply Nat.leb_gt; lia). now apply Rv.
    - replace (ssize o <=? i) with true by (symmetry; apply Nat.leb_le; lia).
      now replace (i <? n) with true by (symmetry; apply Nat.ltb_lt; lia).
  Qed.
  Lemma s_resize_refused o n : Cap < n -> s_resize Cap o n = o.
  Proof. intros H. unfold s_resize. now replace (n <=? Cap) with false by (symmetry; apply Nat.leb_gt; lia). Qed.

  Lemma s_resize_ok o m n : sref o m -> sref (s_resize Cap o n) (l_resize (option Z) (Some 0%Z) (Some Cap) m n).
  Proof.
    intros H. unfold l_resize, fits. destruct (Nat.leb_spec n Cap) as [Hn|Hn].
    - exact (s_resize_fits o m n Hn H).
    - now rewrite s_resize_refused.
  Qed.

  Lemma s_assign_ok dst md src ms : sref dst md -> sref src ms -> sref (s_assign Cap dst src) ms.
  Proof.
    intros Hd ((Rs & Rl & Rv) & L). assert (Hn : ssize src <= Cap) by lia.
    pose proof (s_resize_fits dst md (ssize src) Hn Hd) as ((Ks & Kl & _) & KL).
    unfold s_assign. set (o := s_resize Cap dst (ssize src)) in *.
    rewrite m_resize_length in Ks.
    split; cbn [sbuf ssize]; [|rewrite copy_cells_length; lia].
    split; [lia|]. split; [rewrite copy_cells_length; lia|].
    intros i v Hi. assert (i < length ms) by (apply nth_error_Some; congruence).
    rewrite nth_copy_cells by lia. replace (i <? ssize o) with true by (symmetry; apply Nat.ltb_lt; lia). now apply Rv.
  Qed.

  Lemma s_write_ok o m i v : sref o m -> i < ssize o ->
    sref (mkS (upd (sbuf o) i (Val v)) (ssize o)) (upd m i (Some v)).
  Proof.
    intros ((Rs & Rl & Rv) & L) Hi. split; cbn [sbuf ssize]; [|now rewrite upd_len].
    split; [now rewrite upd_len|]. split; [rewrite upd_len; lia|].
    intros j w. rewrite !nth_upd. destruct (Nat.eqb_spec j i) as [->|Hne]; simpl.
    - replace (i <? length m) with true by (symmetry; apply Nat.ltb_lt; lia).
      replace (i <? length (sbuf o)) with true by (symmetry; apply Nat.ltb_lt; lia). congruence.
    - apply Rv.
  Qed.

  Lemma s_push_ok o m v : sref o m -> sref (s_push Cap o v) (if length m + 1 <=? Cap then m ++ [Some v] else m).
  Proof.
    intros HA. pose proof HA as ((As & Al & Av) & AL). unfold s_push. rewrite <- As.
    destruct (Nat.ltb_spec Cap (ssize o + 1)) as [H|H].
    - replace (ssize o + 1 <=? Cap) with false by (symmetry; apply Nat.leb_gt; lia). exact HA.
    - replace (ssize o + 1 <=? Cap) with true by (symmetry; apply Nat.leb_le; lia).
      pose proof (s_resize_fits o m (ssize o + 1) H HA) as K. rewrite As, m_resize_grow1 in K. rewrite As.
      set (o1 := s_resize Cap o (length m + 1)) in *.
      assert (E1 : ssize o1 = length m + 1) by (destruct K as ((K1 & _) & _); rewrite K1, app_length; simpl; lia).
      pose proof (s_write_ok o1 _ (ssize o1 - 1) v K ltac:(lia)) as W.
      replace (ssize o1 - 1) with (length m) in W by lia. rewrite upd_last in W.
      replace (ssize o1 - 1) with (length m) by lia. exact W.
  Qed.

  Lemma SI_step s m o : SI s m -> SI (sstep Cap s o) (smstep m o).
  Proof.
    destruct s as [a b], m as [ma mb]. intros [HA HB]. cbn [fst snd] in *.
    pose proof HA as ((As & Al & Av) & AL). pose proof HB as ((Bs & Bl & Bv) & BL).
    destruct o; unfold sstep, smstep, lstep; cbn [fst snd]; unfold SI; cbn [fst snd].
    - split; [apply sref_default | exact HB].
    - split; [|exact HB]. unfold fits, s_sized. destruct (Nat.leb_spec n Cap) as [Hf|Hf].
      + pose proof (s_resize_fits _ _ n Hf sref_default) as K. now rewrite m_resize_nil in K.
      + rewrite s_resize_refused by lia. apply sref_default.
    - split; [|exact HB]. unfold fits. exact (s_push_ok a ma v HA).
    - split; [now apply s_resize_ok | exact HB].
    - rewrite <- As. destruct (Nat.ltb_spec i (ssize a)) as [H|H]; cbn [andb].
      + replace (i <? Cap) with true by (symmetry; apply Nat.ltb_lt; lia). cbn [fst snd].
        split; [now apply s_write_ok | exact HB].
      + split; assumption.
    - split; exact HA.
    - split; [exact HA | now apply (s_assign_ok b mb a ma)].
    - split; [now apply (s_assign_ok a ma b mb) | exact HB].
    - split; [now apply (s_assign_ok a ma a ma) | exact HB].
    - split; assumption.
  Qed.

  Lemma SI_run ops : SI (srun Cap ops) (smask_run Cap ops).
  Proof.
    unfold srun, smask_run, lrun. apply (fold_inv SI (sstep Cap) smstep SI_step). split; apply sref_default.
  Qed.
End SV.

(* ---------- statements ---------- *)
Lemma F2_nth {A B} (R : A -> B -> Prop) l l' : Forall2 R l l' -> forall i x, nth_error l i = Some x ->
  exists y, nth_error l' i = Some y /\ R x y.
Proof. induction 1; intros [|i] a Hi; simpl in *; try discriminate; [injection Hi as <-; eauto | eauto]. Qed.

(* what an object shows against the std contents [l] through the mask [m] *)
Definition agrees (buf : list cell) (size : nat) (m : list (option Z)) (l : list Z) : Prop :=
  size = length l /\ size <= length buf /\
  (forall i v, nth_error m i = Some (Some v) -> nth_error buf i = Some (Val v) /\ nth_error l i = Some v) /\
  (determined m = true -> firstn size buf = map Val l).

Lemma agrees_intro buf size m l : ref buf size m -> Forall2 mask_ok m l -> agrees buf size m l.
Proof.
  intros Hr HF. pose proof Hr as (Rs & Rl & Rv). pose proof (F2_length _ _ mask_ok _ _ HF) as HL.
  split; [congruence|]. split; [assumption|]. split.
  - intros i v Hi. split; [now apply Rv|]. destruct (F2_nth _ _ _ HF i _ Hi) as (y & Hy & Hm). simpl in Hm. congruence.
  - intros HD. now apply (determined_contents buf size m l).
Qed.

Lemma vector_refinement ops :
  let s := vrun ops in let m := vmask_run ops in let l := std_run None ops in
  agrees (vbuf (oa s)) (vsize (oa s)) (fst m) (fst l) /\ agrees (vbuf (ob s)) (vsize (ob s)) (snd m) (snd l).
Proof.
  cbv zeta. destruct (VI_run ops) as (RA & RB & _). destruct (vmask_std ops) as [FA FB].
  split; apply agrees_intro; assumption.
Qed.

Lemma vector_memory ops :
  let s := vrun ops in
  bad (hp s) = false /\ oob (hp s) = false /\ vblk (oa s) <> vblk (ob s) /\
  (forall id, In id (live (hp s)) <-> id = vblk (oa s) \/ id = vblk (ob s)) /\
  nalloc (hp s) = nfree (hp s) + 2 /\
  let h := vfinish s in live h = [] /\ bad h = false /\ oob h = false /\ nalloc h = nfree h.
Proof.
  cbv zeta. pose proof (VI_run ops) as V. pose proof (VI_finish _ _ V) as F.
  destruct V as (_ & _ & (B & L & _ & N) & NE & O). repeat split; auto; try apply L; apply F.
Qed.

Lemma static_vector_refinement Cap ops :
  let s := srun Cap ops in let m := smask_run Cap ops in let l := std_run (Some Cap) ops in
  agrees (sbuf (fst s)) (ssize (fst s)) (fst m) (fst l) /\ agrees (sbuf (snd s)) (ssize (snd s)) (snd m) (snd l) /\
  length (sbuf (fst s)) = Cap /\ length (sbuf (snd s)) = Cap /\ ssize (fst s) <= Cap /\ ssize (snd s) <= Cap.
Proof.
  cbv zeta. destruct (SI_run Cap ops) as ((RA & LA) & (RB & LB)). destruct (smask_std Cap ops) as [FA FB].
  pose proof RA as (_ & A2 & _). pose proof RB as (_ & B2 & _).
  split; [apply agrees_intro; assumption|]. split; [apply agrees_intro; assumption|].
  split; [exact LA|]. split; [exact LB|]. split; lia.
Qed.

Lemma static_vector_refuses Cap o v n :
  (Cap < ssize o + 1 -> s_push Cap o v = o) /\ (Cap < n -> s_resize Cap o n = o).
Proof.
  split; intros H.
  - unfold s_push. now replace (Cap <? ssize o + 1) with true by (symmetry; apply Nat.ltb_lt; lia).
  - unfold s_resize. now replace (n <=? Cap) with false by (symmetry; apply Nat.leb_gt; lia).
Qed.

Lemma fill_cells_same buf a : fill_cells buf a a = buf.
Proof. unfold fill_cells. rewrite Nat.sub_diag, Nat.max_id. simpl. apply firstn_skipn. Qed.

Lemma self_assign_identity s m : VI s m -> vstep s SelfAssign = s.
Proof.
  intros ((Rs & Rl & _) & _). unfold vstep, v_assign, v_resize, v_copy_into.
  replace (length (vbuf (oa s)) <? vsize (oa s)) with false by (symmetry; apply Nat.ltb_ge; lia).
  rewrite fill_cells_same.
  cbn [vbuf vsize vblk]. replace (vsize (oa s) <=? length (vbuf (oa s))) with true by (symmetry; apply Nat.leb_le; lia).
  cbn [andb]. rewrite !chk_true. unfold copy_cells. rewrite firstn_skipn. destruct s as [[ab asz ak] b h]. reflexivity.
Qed.

(* operations on A never touch B *)
Definition a_only (o : op) : bool := match o with CopyCtor | AssignAB | Flip => false | _ => true end.
Lemma copies_independent s o : a_only o = true -> ob (vstep s o) = ob s.
Proof.
  destruct o; intros H; try discriminate; unfold vstep.
  - destruct (v_default (hp s)); reflexivity.
  - destruct (v_sized (hp s) n); reflexivity.
  - destruct (v_push (hp s) (oa s) v); reflexivity.
  - destruct (v_resize (hp s) (oa s) n); reflexivity.
  - destruct (i <? vsize (oa s)); [destruct (v_set (hp s) (oa s) i (Val v))|]; reflexivity.
  - destruct (v_assign (hp s) (oa s) (ob s)); reflexivity.
  - destruct (v_assign (hp s) (oa s) (oa s)); reflexivity.
Qed.


(* ---------- full refinement: every cell of the option-valued run is fixed to the std value ---------- *)
Definition is_some_of (m : option Z) (z : Z) : Prop := m = Some z.
Lemma some_run cap ops :
  Forall2 is_some_of (fst (lrun (option Z) (Some 0%Z) (Some 0%Z) Some cap ops)) (fst (std_run cap ops)) /\
  Forall2 is_some_of (snd (lrun (option Z) (Some 0%Z) (Some 0%Z) Some cap ops)) (snd (std_run cap ops)).
Proof. apply lrun_param; unfold is_some_of; auto. Qed.

Lemma ref_full buf size m l : ref buf size m -> Forall2 is_some_of m l ->
  firstn size buf = map Val l /\ size = length l /\ size <= length buf.
Proof.
  intros Hr HF.
  assert (HM : Forall2 mask_ok m l).
  { clear Hr. induction HF as [|x z m l Hx HF IH]; [constructor|]. constructor; [|exact IH]. unfold is_some_of in Hx. subst x. reflexivity. }
  assert (HD : determined m = true).
  { clear Hr HM. induction HF as [|x z m l Hx HF IH]; [reflexivity|]. unfold is_some_of in Hx. subst x. exact IH. }
  pose proof (agrees_intro buf size m l Hr HM) as (A1 & A2 & _ & A4). auto.
Qed.

Lemma vector_refinement_full ops :
  let s := vrun ops in let l := std_run None ops in
  (vcontents (oa s) = map Val (fst l) /\ vsize (oa s) = length (fst l) /\ vsize (oa s) <= length (vbuf (oa s))) /\
  (vcontents (ob s) = map Val (snd l) /\ vsize (ob s) = length (snd l) /\ vsize (ob s) <= length (vbuf (ob s))).
Proof.
  cbv zeta. destruct (VI_run ops) as (RA & RB & _). destruct (some_run None ops) as [FA FB].
  split; [exact (ref_full _ _ _ _ RA FA) | exact (ref_full _ _ _ _ RB FB)].
Qed.

Lemma static_vector_refinement_full Cap ops :
  let s := srun Cap ops in let l := std_run (Some Cap) ops in
  (scontents (fst s) = map Val (fst l) /\ ssize (fst s) = length (fst l) /\ ssize (fst s) <= Cap /\ length (sbuf (fst s)) = Cap) /\
  (scontents (snd s) = map Val (snd l) /\ ssize (snd s) = length (snd l) /\ ssize (snd s) <= Cap /\ length (sbuf (snd s)) = Cap).
Proof.
  cbv zeta. destruct (SI_run Cap ops) as ((RA & LA) & (RB & LB)). destruct (some_run (Some Cap) ops) as [FA FB].
  destruct (ref_full _ _ _ _ RA FA) as (A1 & A2 & A3). destruct (ref_full _ _ _ _ RB FB) as (B1 & B2 & B3).
  unfold scontents. split; (split; [assumption|]; split; [assumption|]; split; [lia | assumption]).
Qed.

(* ---------- nmtools::small_vector (default configuration) ---------- *)
Section SMALL.
  Variable DIM : nat.
  Definition sm_inv (x : smallv) (l : list Z) : Prop :=
    match x with SmS o => sref DIM o (map Some l) | SmD d => d = l end.

  Lemma F2_some_map (l : list Z) : Forall2 is_some_of (map Some l) l.
  Proof. induction l; simpl; constructor; auto. reflexivity. Qed.
  Lemma cellz_val l : map cellz (map Val l) = l.
  Proof. induction l; simpl; congruence. Qed.

  Lemma sref_contents o l : sref DIM o (map Some l) ->
    map cellz (firstn (ssize o) (sbuf o)) = l /\ ssize o = length l /\ ssize o <= DIM.
  Proof.
    intros (R & L). destruct (ref_full _ _ _ _ R (F2_some_map l)) as (E & E2 & E3).
    rewrite E, cellz_val. repeat split; auto; lia.
  Qed.
  Lemma sm_inv_contents x l : sm_inv x l -> sm_contents x = l /\ sm_size x = length l.
  Proof.
    destruct x as [o|d]; simpl; intros H; [|subst; auto].
    destruct (sref_contents o l H) as (E & E2 & _). unfold scontents. auto.
  Qed.

  Lemma map_repeat {A B} (f : A -> B) x n : map f (repeat x n) = repeat (f x) n.
  Proof. induction n; simpl; congruence. Qed.
  Lemma map_Some_resize (l : list Z) n :
    m_resize (map Some l) n = map Some (firstn n l ++ repeat 0%Z (n - length l)).
  Proof. unfold m_resize. now rewrite map_app, firstn_map, map_repeat, map_length. Qed.
  Lemma upd_map {A B} (f : A -> B) (l : list A) : forall i x, upd (map f l) i (f x) = map f (upd l i x).
  Proof. induction l as [|h l IH]; intros [|i] x; simpl; auto. now rewrite IH. Qed.

  Lemma sm_resize_ok x l n : sm_inv x l ->
    sm_inv (sm_resize DIM x n) (firstn n l ++ repeat 0%Z (n - length l)).
  Proof.
    destruct x as [o|d]; simpl; intros H; [|now subst].
    destruct (Nat.leb_spec n DIM) as [Hn|Hn]; simpl.
    - rewrite <- map_Some_resize. now apply s_resize_fits.
    - destruct (sref_contents o l H) as (E & E2 & E3). rewrite E, E2. now rewrite firstn_all2 by lia.
  Qed.
  Lemma sm_write_ok x l i v : sm_inv x l -> i < length l -> sm_inv (sm_write x i v) (upd l i v).
  Proof.
    destruct x as [o|d]; simpl; intros H Hi; [|now subst].
    destruct (sref_contents o l H) as (_ & E2 & _).
    rewrite <- (upd_map Some). apply s_write_ok; [assumption | lia].
  Qed.
  Lemma sm_push_ok x l v : sm_inv x l -> sm_inv (sm_push DIM x v) (l ++ [v]).
  Proof.
    intros H. destruct (sm_inv_contents x l H) as (_ & Hs). unfold sm_push. rewrite Hs.
    destruct (Nat.eqb_spec (length l) DIM) as [E|E].
    - pose proof (sm_resize_ok x l (DIM + 1) H) as K.
      rewrite firstn_all2 in K by lia. replace (DIM + 1 - length l) with 1 in K by lia. simpl repeat in K.
      pose proof (sm_write_ok _ _ DIM v K ltac:(rewrite app_length; simpl; lia)) as W.
      replace (upd (l ++ [0%Z]) DIM v) with (l ++ [v]) in W by (rewrite <- E; now rewrite upd_last). exact W.
    - destruct x as [o|d]; simpl in *; [|now subst].
      destruct (sref_contents o l H) as (_ & E2 & E3).
      pose proof (s_push_ok DIM o (map Some l) v H) as K. rewrite map_length in K.
      replace (length l + 1 <=? DIM) with true in K by (symmetry; apply Nat.leb_le; lia).
      now rewrite map_app.
  Qed.
  Lemma sm_sized_ok n : sm_inv (sm_sized DIM n) (repeat 0%Z n).
  Proof.
    unfold sm_sized. destruct (Nat.ltb_spec n DIM) as [H|H]; simpl; [|reflexivity].
    pose proof (s_resize_fits DIM (s_default DIM) [] n ltac:(lia) (sref_default DIM)) as K.
    rewrite m_resize_nil in K. now rewrite map_repeat.
  Qed.

  Definition SMI (s : smallv * smallv) (l : list Z * list Z) : Prop := sm_inv (fst s) (fst l) /\ sm_inv (snd s) (snd l).
  Lemma SMI_step s l o : SMI s l -> SMI (Containers.smstep DIM s o) (lstep Z 0%Z 0%Z (fun z => z) None l o).
  Proof.
    destruct s as [a b], l as [la lb]. intros [HA HB]. cbn [fst snd] in *.
    destruct (sm_inv_contents a la HA) as (_ & Hs).
    destruct o; unfold Containers.smstep, lstep, l_resize; cbn [fits fst snd]; unfold SMI; cbn [fst snd].
    - split; [apply (sref_default DIM) | exact HB].
    - split; [apply sm_sized_ok | exact HB].
    - split; [now apply sm_push_ok | exact HB].
    - split; [now apply sm_resize_ok | exact HB].
    - rewrite Hs. destruct (Nat.ltb_spec i (length la)); cbn [fst snd]; [split; [now apply sm_write_ok | exact HB] | split; assumption].
    - split; exact HA.
    - split; exact HA.
    - split; exact HB.
    - split; assumption.
    - split; assumption.
  Qed.
  Lemma small_vector_refinement ops :
    sm_contents (fst (smrun DIM ops)) = fst (std_run None ops) /\ sm_contents (snd (smrun DIM ops)) = snd (std_run None ops) /\
    sm_size (fst (smrun DIM ops)) = length (fst (std_run None ops)) /\ sm_size (snd (smrun DIM ops)) = length (snd (std_run None ops)).
  Proof.
    assert (H : SMI (smrun DIM ops) (std_run None ops)).
    { unfold smrun, std_run, lrun. apply (fold_inv SMI (Containers.smstep DIM) (lstep Z 0%Z 0%Z (fun z => z) None) SMI_step).
      split; apply (sref_default DIM). }
    destruct H as [HA HB]. destruct (sm_inv_contents _ _ HA), (sm_inv_contents _ _ HB). auto.
  Qed.
End SMALL.

(* ---------- maybe / either of a non-trivial type: the observable tag and value are std's; the event counts are not ---------- *)
Definition mobs2 (s : mobj * mobj * ncnt) : option Z * option Z := (m_obs (fst (fst s)), m_obs (snd (fst s))).
Lemma mstep_obs s o : mobs2 (mstep s o) = mspec_step (mobs2 s) o.
Proof.
  destruct s as [[[ha sa va] [hb sb vb]] c]. unfold mobs2, m_obs.
  destruct o; simpl; unfold m_assign; simpl; destruct ha, hb; reflexivity.
Qed.
Lemma mrun_obs ops : mobs2 (mrun ops) = mspec_run ops.
Proof.
  unfold mrun, mspec_run.
  exact (fold_inv (fun s m => mobs2 s = m) mstep mspec_step
           (fun s m o H => eq_trans (mstep_obs s o) (f_equal (fun x => mspec_step x o) H)) ops _ _ eq_refl).
Qed.
Definition eobs2 (s : eobj * eobj * ncnt) : (Z + Z) * (Z + Z) := (e_obs (fst (fst s)), e_obs (snd (fst s))).
Lemma enstep_obs s o : eobs2 (enstep s o) = estep (eobs2 s) o.
Proof.
  destruct s as [[[la sa va] [lb sb vb]] c]. unfold eobs2, e_obs.
  destruct o; simpl; unfold e_assign, e_copyctor; simpl; destruct la, lb; reflexivity.
Qed.
Lemma enrun_obs ops : eobs2 (enrun ops) = erun ops.
Proof.
  unfold enrun, erun. simpl.
  exact (fold_inv (fun s m => eobs2 s = m) enstep estep
           (fun s m o H => eq_trans (enstep_obs s o) (f_equal (fun x => estep x o) H)) ops _ _ eq_refl).
Qed.
