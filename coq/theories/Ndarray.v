(* Ndarray.v — FAITHFUL executable model of the array objects of
     include/nmtools/array/ndarray/{ndarray,base_ndarray,hybrid,dynamic,fixed}.hpp,
     utility/cast.hpp and array/view/mutable_{ref,flatten,reshape,slice}.hpp
   (as the code is after the commit "fix: ndarray_t::resize validates the request
   before touching shape and buffer"), plus the independent reference (Spec) that
   property C20 states.  Element type [A] and the value that fresh cells receive
   ([dflt]) are Section variables. *)
From NM Require Import Base Index.
Local Open Scope Z_scope.

(* ---------- what is fixed / bounded / dynamic in an ndarray_t instantiation ---------- *)
Inductive shape_kind :=
| SFixedDim (n : nat)       (* nmtools_array<size_t,n>               "fs"  *)
| SBounded (m : nat)        (* static_vector<size_t,m>               "hs"  *)
| SDynamic                  (* nmtools_list<size_t>                  "ds"  *)
| SClipped (maxs : list Z)  (* tuple / array of clipped_size_t<max>  "ls"  *)
| SConstant (s : list Z).   (* tuple of ct<>                         "cs" (no resize member) *)
Inductive buffer_kind :=
| BFixed (n : nat)          (* nmtools_array<T,n>   "fb" *)
| BBounded (c : nat)        (* static_vector<T,c>   "hb" *)
| BDynamic.                 (* nmtools_list<T>      "db" *)
Record kind := mkKind { sk : shape_kind; bk : buffer_kind }.

Definition shape_resizable (k : shape_kind) : bool :=
  match k with SBounded _ | SDynamic => true | _ => false end.
Definition buffer_resizable (k : buffer_kind) : bool :=
  match k with BFixed _ => false | _ => true end.

(* instantiations the model covers: at least one axis, capacities >= 1, clip bounds >= 1,
   and the default-constructed object is consistent (a fixed buffer must hold exactly the
   constant shape / fit under the last clip bound) *)
Definition kind_wfb (k : kind) : bool :=
  (match sk k with
   | SFixedDim n => (1 <=? n)%nat
   | SBounded m => (1 <=? m)%nat
   | SDynamic => true
   | SClipped maxs => (1 <=? length maxs)%nat && forallb (fun n => 1 <=? n) maxs
                      && (match bk k with BFixed n => Z.of_nat n <=? last maxs 0 | _ => true end)
   | SConstant s => (1 <=? length s)%nat && forallb (fun n => 1 <=? n) s
                    && (match bk k with
                        | BFixed n => prod s =? Z.of_nat n
                        | BBounded c => prod s <=? Z.of_nat c
                        | BDynamic => true end)
   end)
  && (match bk k with BFixed n => (1 <=? n)%nat | BBounded c => (1 <=? c)%nat | BDynamic => true end).

(* container.resize(n): keep the prefix, new cells get [d] *)
Definition lresize {B} (d : B) (l : list B) (n : nat) : list B :=
  firstn n l ++ repeat d (n - length l).

(* strides the offset functor of a layout uses (base_ndarray.hpp:28,97-99) *)
Definition layout_strides (L : layout) (s : list Z) : list Z :=
  match L with RowMajor => row_major_strides s | ColMajor => col_major_strides s end.

(* offset_type(shape_,strides_): row_major_offset_t stores both arguments,
   column_major_offset_t stores reverse(shape) and reverse(compute_strides(reverse(shape))).
   (for a clipped shape the strides are kept in a plain index array, base_ndarray.hpp:91-110,
   after "fix: column-major ndarray_t with a clipped shape addresses distinct indices to
   distinct elements": the same values) *)
Definition offset_of (L : layout) (s st : list Z) : list Z * list Z :=
  match L with
  | RowMajor => (s, st)
  | ColMajor => (rev s, rev (compute_strides (rev s)))
  end.

(* clipped-shape test performed BEFORE mutating (ndarray.hpp:99-109) *)
Definition clip_ok (maxs sizes : list Z) : bool :=
  (length sizes =? length maxs)%nat && forallb (fun p => fst p <=? snd p) (combine sizes maxs).
(* the older clipped test that is still performed after the mutation (ndarray.hpp:141-154) *)
Definition late_clip_ok (maxs sizes : list Z) : bool :=
  (length sizes =? length maxs)%nat && (product sizes <=? product maxs)
  && forallb (fun p => fst p <=? snd p) (combine sizes maxs).

(* the three validations of ndarray.hpp:75-109 in the order of the code *)
Definition precheck (k : kind) (shp : list Z) (ndata : nat) (sizes : list Z) : bool :=
  let numel := product sizes in
  let new_dim := length sizes in
  (match sk k with
   | SFixedDim _ | SClipped _ => (length shp =? new_dim)%nat
   | SConstant _ => false          (* resize is SFINAE-disabled for constant shapes *)
   | SBounded m => (new_dim <=? m)%nat
   | SDynamic => true
   end)
  && (match bk k with
      | BFixed _ => Z.of_nat ndata =? numel
      | BBounded c => numel <=? Z.of_nat c
      | BDynamic => true
      end)
  && (match sk k with SClipped maxs => clip_ok maxs sizes | _ => true end).

(* for (i<new_dim) at(shape_,i) = at(sizes_,i) *)
Definition overwrite (shp sizes : list Z) : list Z := sizes ++ skipn (length sizes) shp.

Section Arrays.
Variable A : Type.
Variable dflt : A.

Record state := mkState {
  st_kind : kind; st_layout : layout;
  st_shape : list Z;              (* shape_   *)
  st_strides : list Z;            (* strides_ *)
  st_off : list Z * list Z;       (* offset_ = (shape_, strides_) of the offset functor *)
  st_data : list A                (* data_    *)
}.

(* ndarray_t() (ndarray.hpp:46-59, base_ndarray.hpp:205-240) *)
Definition init_data (b : buffer_kind) : list A :=
  match b with BFixed n => repeat dflt n | _ => [dflt] end.
Definition init_shape (s : shape_kind) (ndata : nat) : list Z :=
  match s with
  | SConstant c => c
  | SFixedDim n => repeat 1 (n - 1) ++ [Z.of_nat ndata]
  | SClipped maxs => repeat 1 (length maxs - 1) ++ [Z.min (Z.of_nat ndata) (last maxs 0)]
  | SBounded _ | SDynamic => [Z.of_nat ndata]
  end.
Definition init (k : kind) (L : layout) : state :=
  let d0 := init_data (bk k) in
  let s0 := init_shape (sk k) (length d0) in
  let st0 := compute_strides s0 in
  let d1 := if buffer_resizable (bk k) && negb (Z.of_nat (length d0) =? product s0)
            then lresize dflt d0 (Z.to_nat (product s0)) else d0 in
  mkState k L s0 st0 (offset_of L s0 st0) d1.

(* ndarray_t::resize, ndarray.hpp:61-184, statement by statement *)
Definition resize (st : state) (sizes : list Z) : bool * state :=
  let k := st_kind st in
  let L := st_layout st in
  let numel := product sizes in
  let new_dim := length sizes in
  if negb (precheck k (st_shape st) (length (st_data st)) sizes) then (false, st) else
  let shape1 := if shape_resizable (sk k) then lresize 0 (st_shape st) new_dim else st_shape st in
  let data1 := if buffer_resizable (bk k) then lresize dflt (st_data st) (Z.to_nat numel) else st_data st in
  let st1 := mkState k L shape1 (st_strides st) (st_off st) data1 in
  let same_dim := (length shape1 =? new_dim)%nat in
  let same_numel := Z.of_nat (length data1) =? numel in
  if negb same_numel then (false, st1) else
  if negb same_dim then (false, st1) else
  if (match sk k with SClipped maxs => negb (late_clip_ok maxs sizes) | _ => false end) then (false, st1) else
  let shape2 := overwrite shape1 sizes in
  let strides2 := compute_strides shape2 in
  (true, mkState k L shape2 strides2 (offset_of L shape2 strides2) data1).

(* base_ndarray_t::operator()(indices) = at(data_, offset_(indices)) *)
Definition st_offset (st : state) (idx : list Z) : Z := compute_offset idx (snd (st_off st)).
Definition get (st : state) (idx : list Z) : option A := nth_error (st_data st) (Z.to_nat (st_offset st idx)).
Definition write (st : state) (idx : list Z) (x : A) : state :=
  mkState (st_kind st) (st_layout st) (st_shape st) (st_strides st) (st_off st)
          (upd (st_data st) (Z.to_nat (st_offset st idx)) x).

(* implicit copy constructor / copy assignment: memberwise *)
Definition copy (st : state) : state := st.
Definition assign (st other : state) : state := other.

Inductive op :=
| Resize (sizes : list Z)
| Write (idx : list Z) (x : A)
| Copy
| Assign (other : state).

Definition step (st : state) (o : op) : state :=
  match o with
  | Resize sizes => snd (resize st sizes)
  | Write idx x => write st idx x
  | Copy => copy st
  | Assign other => assign st other
  end.
Definition run (st : state) (h : list op) : state := fold_left step h st.

(* all elements in nested-loop order of the indices *)
Definition elements (st : state) : list (option A) := map (get st) (lex_enum (st_shape st)).

End Arrays.

Arguments mkState {A}. Arguments st_kind {A}. Arguments st_layout {A}. Arguments st_shape {A}.
Arguments st_strides {A}. Arguments st_off {A}. Arguments st_data {A}.
Arguments init {A}. Arguments resize {A}. Arguments get {A}. Arguments write {A}.
Arguments st_offset {A}. Arguments elements {A}. Arguments step {A}. Arguments run {A}.
Arguments Resize {A}. Arguments Write {A}. Arguments Copy {A}. Arguments Assign {A}.
Arguments copy {A}. Arguments assign {A}.

(* ---------- cast (utility/cast.hpp:262-281, 285-291): default-construct the target,
   apply_resize it to the source shape (the returned flag is ignored), copy the
   flattened source into the mutable flattening of the target.  Target arrays are
   row-major.  [None] = the resize was refused and the copy loop runs over a target
   of another size (out-of-range writes). *)
Section Cast.
Variables A B : Type.
Variable dfltA : A.
Variable dfltB : B.
Variable conv : A -> B.         (* static_cast<element_t> *)

Definition cast_data (st : state A) : list B :=
  map (fun i => match get st i with Some x => conv x | None => dfltB end) (lex_enum (st_shape st)).
Definition cast (st : state A) (k' : kind) : option (state B) :=
  let r0 := init dfltB k' RowMajor in
  match sk k' with
  | SConstant c =>      (* not resizable: the constant shape must be the source shape (static_assert) *)
      if list_eq_dec Z.eq_dec c (st_shape st)
      then Some (mkState k' RowMajor (st_shape r0) (st_strides r0) (st_off r0) (cast_data st))
      else None
  | _ =>
      let (ok, r1) := resize dfltB r0 (st_shape st) in
      if ok then Some (mkState k' RowMajor (st_shape r1) (st_strides r1) (st_off r1) (cast_data st))
      else None
  end.
End Cast.
Arguments cast {A B}.

(* ---------- legacy classes ---------- *)
Section Legacy.
Variable A : Type.
Variable dflt : A.

(* hybrid_ndarray<T,max_elements,dim> (hybrid.hpp:86-214): fixed buffer of max_elements cells *)
Record hstate := mkH { h_max : nat; h_dim : nat; h_shape : list Z; h_strides : list Z; h_buf : list A }.
Definition h_init (mx dm : nat) : hstate :=
  let s := Z.of_nat mx :: repeat 1 (dm - 1) in
  mkH mx dm s (compute_strides s) (repeat dflt mx).
Definition h_resize (st : hstate) (sizes : list Z) : bool * hstate :=
  if negb (length sizes =? h_dim st)%nat then (false, st) else
  if Z.of_nat (h_max st) <? product sizes then (false, st) else
  (true, mkH (h_max st) (h_dim st) sizes (compute_strides sizes) (h_buf st)).
Definition h_get (st : hstate) (idx : list Z) : option A :=
  nth_error (h_buf st) (Z.to_nat (compute_offset (h_strides st) idx)).
Definition h_write (st : hstate) (idx : list Z) (x : A) : hstate :=
  mkH (h_max st) (h_dim st) (h_shape st) (h_strides st)
      (upd (h_buf st) (Z.to_nat (compute_offset (h_strides st) idx)) x).

(* dynamic_ndarray<T> (dynamic.hpp:36-212): resize never refuses *)
Record dstate := mkD { d_shape : list Z; d_strides : list Z; d_numel : option Z; d_data : list A }.
Definition d_resize (st : dstate) (sizes : list Z) : dstate :=
  let numel := fold_left Z.mul sizes 1 in
  mkD sizes (map (stride sizes) (seq 0 (length sizes))) (Some numel) (lresize dflt (d_data st) (Z.to_nat numel)).
(* dynamic_ndarray() { resize(shape_type{}); } : the 0-dim array with one element *)
Definition d_init : dstate := d_resize (mkD [] [] None []) [].
Definition d_get (st : dstate) (idx : list Z) : option A :=
  nth_error (d_data st) (Z.to_nat (compute_offset (d_strides st) idx)).
Definition d_write (st : dstate) (idx : list Z) (x : A) : dstate :=
  mkD (d_shape st) (d_strides st) (d_numel st)
      (upd (d_data st) (Z.to_nat (compute_offset (d_strides st) idx)) x).
End Legacy.
Arguments mkH {A}. Arguments h_max {A}. Arguments h_dim {A}. Arguments h_shape {A}. Arguments h_strides {A}.
Arguments h_buf {A}. Arguments h_init {A}. Arguments h_resize {A}. Arguments h_get {A}. Arguments h_write {A}.
Arguments mkD {A}. Arguments d_shape {A}. Arguments d_strides {A}. Arguments d_numel {A}. Arguments d_data {A}.
Arguments d_init {A}. Arguments d_resize {A}. Arguments d_get {A}. Arguments d_write {A}.

(* ---------- mutable views (mutable_indexing.hpp:51-79): operator()(i) returns a
   reference to apply_at(array, indexer.indices(i)) ---------- *)
Inductive mview :=
| VRef                                   (* mutable_ref: identity *)
| VFlatten                               (* mutable_flatten = mutable_reshape to [size] *)
| VReshape (d : list Z)                  (* mutable_reshape: unravel the row-major rank of i in d over the source shape *)
| VSlice (axes : list (Z * Z * Z)).      (* mutable_slice, normalised per axis (start, step, length) *)

Definition view_shape (v : mview) (s : list Z) : list Z :=
  match v with
  | VRef => s
  | VFlatten => [product s]
  | VReshape d => d
  | VSlice axes => map (fun a => snd a) axes
  end.
Definition view_index (v : mview) (s : list Z) (i : list Z) : list Z :=
  match v with
  | VRef => i
  | VFlatten => compute_indices (compute_offset i (compute_strides [product s])) s
  | VReshape d => compute_indices (compute_offset i (compute_strides d)) s
  | VSlice axes => map (fun p => fst (fst (snd p)) + fst p * snd (fst (snd p))) (combine i axes)
  end.
Definition view_accepts (v : mview) (s : list Z) : bool :=
  match v with
  | VRef | VFlatten => true
  | VReshape d => (product d =? product s) && forallb (fun n => 1 <=? n) d
  | VSlice axes =>
      (length axes =? length s)%nat &&
      forallb (fun p => let '((start, stp, len), n) := p in
                 negb (stp =? 0) && (0 <=? len) &&
                 ((len =? 0) || ((0 <=? start) && (start <? n) &&
                                 (0 <=? start + (len - 1) * stp) && (start + (len - 1) * stp <? n))))
              (combine axes s)
  end.

Section Views.
Variable A : Type.
Definition vget (v : mview) (L : layout) (s : list Z) (buf : list A) (i : list Z) : option A :=
  ndarray_get L s buf (view_index v s i).
Definition vset (v : mview) (L : layout) (s : list Z) (buf : list A) (i : list Z) (x : A) : list A :=
  ndarray_set L s buf (view_index v s i) x.
End Views.
Arguments vget {A}. Arguments vset {A}.

(* =====================  Spec: what property C20 says  ===================== *)
(* a request fits an array kind: the rank fits the shape container, the element
   count fits the buffer, every extent is below its clip bound *)
Definition fits (k : kind) (sizes : list Z) : bool :=
  (match sk k with
   | SFixedDim n => (length sizes =? n)%nat
   | SBounded m => (length sizes <=? m)%nat
   | SDynamic => true
   | SClipped maxs => (length sizes =? length maxs)%nat
                      && forallb (fun p => fst p <=? snd p) (combine sizes maxs)
   | SConstant s => false
   end)
  && (match bk k with
      | BFixed n => prod sizes =? Z.of_nat n
      | BBounded c => prod sizes <=? Z.of_nat c
      | BDynamic => true
      end).

(* strides of a layout, written without reference to compute_strides:
   row-major = suffix products, column-major = prefix products *)
Fixpoint prefix_products (acc : Z) (s : list Z) : list Z :=
  match s with [] => [] | n :: t => acc :: prefix_products (acc * n) t end.
Definition spec_strides (L : layout) (s : list Z) : list Z :=
  match L with RowMajor => strides s | ColMajor => prefix_products 1 s end.

(* abstract array: a shape and a partial map from multi-indices to values
   ([None] = the property does not fix the value: fresh cells after construction or
   after a successful resize) *)
Section Spec.
Variable A : Type.
Record astate := mkA { a_kind : kind; a_layout : layout; a_shape : list Z; a_cells : list (list Z * A) }.
Fixpoint alookup (c : list (list Z * A)) (i : list Z) : option A :=
  match c with
  | [] => None
  | (j, x) :: t => if list_eq_dec Z.eq_dec j i then Some x else alookup t i
  end.
Definition a_resize (st : astate) (sizes : list Z) : bool * astate :=
  if fits (a_kind st) sizes
  then (true, mkA (a_kind st) (a_layout st) sizes [])
  else (false, st).
Definition a_write (st : astate) (i : list Z) (x : A) : astate :=
  mkA (a_kind st) (a_layout st) (a_shape st) ((i, x) :: a_cells st).
Definition a_get (st : astate) (i : list Z) : option A := alookup (a_cells st) i.
End Spec.
Arguments mkA {A}. Arguments a_kind {A}. Arguments a_layout {A}. Arguments a_shape {A}. Arguments a_cells {A}.
Arguments a_resize {A}. Arguments a_write {A}. Arguments a_get {A}. Arguments alookup {A}.
