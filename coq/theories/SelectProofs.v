(* SelectProofs.v — lemmas for C04: Model (Select.v) = Spec on the valid-argument domain, and the
   copy statement "a non-fill output element is the designated source element, which is in bounds".
   Every statement is for every dimension and every extent (induction on the shape lists). *)
From NM Require Import Base Index IndexProofs Select.
Local Open Scope Z_scope.

(* ------------------------------------------------------------------------------------------ *)
(* generic list facts                                                                          *)

Lemma rev_repeat' {A} (x : A) n : rev (repeat x n) = repeat x n.
Proof.
  induction n; simpl; [reflexivity|]. rewrite IHn. clear IHn.
  induction n; simpl; [reflexivity|]. now rewrite IHn.
Qed.

Lemma map2_length f a : forall b, length a = length b -> length (map2 f a b) = length a.
Proof. induction a; intros [|y b] H; simpl in *; try discriminate; auto. Qed.

Lemma map2_app f x1 : forall y1 x2 y2, length x1 = length y1 ->
  map2 f (x1 ++ x2) (y1 ++ y2) = map2 f x1 y1 ++ map2 f x2 y2.
Proof.
  induction x1 as [|x x1 IH]; intros [|y y1] x2 y2 Hl; simpl in *; try discriminate; [reflexivity|].
  now rewrite IH by lia.
Qed.

Lemma map2_rev f x : forall y, length x = length y -> map2 f (rev x) (rev y) = rev (map2 f x y).
Proof.
  induction x as [|a x IH]; intros [|b y] Hl; simpl in *; try discriminate; [reflexivity|].
  rewrite map2_app by (rewrite !rev_length; lia). now rewrite IH by lia.
Qed.

Lemma pad1_length n s : (length s <= n)%nat -> length (pad1 n s) = n.
Proof. intros. unfold pad1. rewrite app_length, repeat_length. lia. Qed.

Lemma rev_pad1 n s : rev (pad1 n s) = rev s ++ repeat 1 (n - length s).
Proof. unfold pad1. now rewrite rev_app_distr, rev_repeat'. Qed.

Lemma inb_rev' i s : inb (rev i) (rev s) -> inb i s.
Proof. intros H. apply inb_rev in H. now rewrite !rev_involutive in H. Qed.

(* ------------------------------------------------------------------------------------------ *)
(* tile                                                                                        *)

Lemma map2_mul_ones_l b : map2 Z.mul (repeat 1 (length b)) b = b.
Proof. induction b as [|y b IH]; simpl; [reflexivity|]. rewrite IH. now destruct y. Qed.
Lemma map2_mul_ones_r a : map2 Z.mul a (repeat 1 (length a)) = a.
Proof. induction a as [|x a IH]; simpl; [reflexivity|]. rewrite IH. now rewrite Z.mul_1_r. Qed.

Lemma tile_shape_rev_np a : forall b,
  tile_shape_rev a b =
  map2 Z.mul (a ++ repeat 1 (Nat.max (length a) (length b) - length a))
             (b ++ repeat 1 (Nat.max (length a) (length b) - length b)).
Proof.
  induction a as [|x a IH]; intros [|y b].
  - reflexivity.
  - cbn [tile_shape_rev length app]. rewrite Nat.max_0_l, Nat.sub_0_r, Nat.sub_diag. cbn [repeat].
    rewrite app_nil_r. symmetry. exact (map2_mul_ones_l (y :: b)).
  - cbn [tile_shape_rev length app]. rewrite Nat.max_0_r, Nat.sub_0_r, Nat.sub_diag. cbn [repeat].
    rewrite app_nil_r. symmetry. exact (map2_mul_ones_r (x :: a)).
  - cbn [tile_shape_rev length app map2]. rewrite <- Nat.succ_max_distr.
    replace (S (Nat.max (length a) (length b)) - S (length a))%nat
      with (Nat.max (length a) (length b) - length a)%nat by lia.
    replace (S (Nat.max (length a) (length b)) - S (length b))%nat
      with (Nat.max (length a) (length b) - length b)%nat by lia.
    now rewrite <- IH.
Qed.

Lemma tile_shape_spec s r : shape_tile s r = np_tile_shape s r.
Proof.
  unfold shape_tile, np_tile_shape. rewrite tile_shape_rev_np, !rev_length.
  set (n := Nat.max (length s) (length r)).
  rewrite <- !rev_pad1. rewrite map2_rev by (rewrite !pad1_length; lia).
  apply rev_involutive.
Qed.

Lemma tile_shape_length s r : length (shape_tile s r) = Nat.max (length s) (length r).
Proof.
  rewrite tile_shape_spec. unfold np_tile_shape. rewrite map2_length; rewrite !pad1_length; lia.
Qed.

(* the index map on reversed lists: s shorter or equal to i *)
Lemma tile_idx_rev_np s : forall i, (length s <= length i)%nat ->
  tile_idx_rev s i = firstn (length s) (map2 Z.modulo i (s ++ repeat 1 (length i - length s))).
Proof.
  induction s as [|a s IH]; intros [|x i] Hl; simpl in *; try lia; try reflexivity.
  rewrite IH by lia. reflexivity.
Qed.

Lemma firstn_rev_skipn {A} (l : list A) n : firstn n (rev l) = rev (skipn (length l - n) l).
Proof. rewrite firstn_rev. reflexivity. Qed.

Lemma tile_elem_spec s i : (length s <= length i)%nat -> tile_index s i = np_tile_index s i.
Proof.
  intros Hl. unfold tile_index, np_tile_index.
  rewrite tile_idx_rev_np by (rewrite !rev_length; lia). rewrite !rev_length.
  rewrite <- rev_pad1. rewrite map2_rev by (rewrite pad1_length; lia).
  rewrite firstn_rev, rev_involutive. rewrite map2_length by (rewrite pad1_length; lia). reflexivity.
Qed.

(* in bounds: 0 <= x mod a < a for positive a, position by position from the right *)
Lemma tile_idx_rev_inb s : forall i, pos s -> (length s <= length i)%nat ->
  Forall (fun x => 0 <= x) i -> inb (tile_idx_rev s i) s.
Proof.
  induction s as [|a s IH]; intros [|x i] Hp Hl Hi; simpl in *; try lia; try constructor.
  - inversion Hp; subst. apply Z.mod_pos_bound. lia.
  - inversion Hp; inversion Hi; subst. apply IH; auto; lia.
Qed.

Lemma inb_nonneg i s : inb i s -> Forall (fun x => 0 <= x) i.
Proof. induction 1; constructor; auto; lia. Qed.

Lemma tile_inb s r i : pos s -> inb i (shape_tile s r) -> inb (tile_index s i) s.
Proof.
  intros Hp Hi. pose proof (inb_length _ _ Hi) as Hl. rewrite tile_shape_length in Hl.
  unfold tile_index. apply inb_rev'. rewrite rev_involutive.
  apply (tile_idx_rev_inb (rev s) (rev i)).
  - now apply pos_rev.
  - rewrite !rev_length. lia.
  - apply Forall_rev. exact (inb_nonneg _ _ Hi).
Qed.

(* ------------------------------------------------------------------------------------------ *)
(* positions: set_nth / upd / map_at / flat rank                                               *)

Lemma zlen_nonneg {A} (l : list A) : 0 <= zlen l.
Proof. unfold zlen. lia. Qed.

Lemma set_nth_S k v x t : set_nth (S k) v (x :: t) = x :: set_nth k v t.
Proof. reflexivity. Qed.

Lemma set_nth_length k v l : (k < length l)%nat -> length (set_nth k v l) = length l.
Proof.
  revert l. induction k as [|k IH]; intros [|x t] H; simpl in H; try lia.
  - reflexivity.
  - rewrite set_nth_S. simpl. now rewrite IH by lia.
Qed.

Lemma nth_set_nth k v l : (k < length l)%nat -> nth k (set_nth k v l) 0 = v.
Proof.
  revert l. induction k as [|k IH]; intros [|x t] H; simpl in H; try lia.
  - reflexivity.
  - rewrite set_nth_S. simpl. apply IH. lia.
Qed.

Lemma set_nth_same l : forall k, (k < length l)%nat -> set_nth k (nth k l 0) l = l.
Proof.
  induction l as [|x t IH]; intros [|k] H; simpl in H; try lia.
  - reflexivity.
  - rewrite set_nth_S. simpl. now rewrite IH by lia.
Qed.

Lemma upd_set_nth l : forall k v, (k < length l)%nat -> upd l k v = set_nth k v l.
Proof.
  induction l as [|x t IH]; intros [|k] v H; simpl in H; try lia.
  - reflexivity.
  - rewrite set_nth_S. simpl. now rewrite IH by lia.
Qed.

Lemma map_at_none f l : forall k axis, axis < k -> map_at k axis f l = l.
Proof.
  induction l as [|x t IH]; intros k axis H; simpl; [reflexivity|].
  replace (k =? axis) with false by lia. now rewrite IH by lia.
Qed.

Lemma map_at_spec f l : forall k axis, 0 <= axis - k < zlen l ->
  map_at k axis f l = set_nth (Z.to_nat (axis - k)) (f (nth (Z.to_nat (axis - k)) l 0)) l.
Proof.
  induction l as [|x t IH]; intros k axis H; unfold zlen in H; simpl length in H; [simpl in H; lia|].
  cbn [map_at]. destruct (Z.eqb_spec k axis) as [->|Hne].
  - rewrite Z.sub_diag. cbn. now rewrite map_at_none by lia.
  - replace (Z.to_nat (axis - k)) with (S (Z.to_nat (axis - (k + 1)))) by lia.
    rewrite set_nth_S. cbn [nth]. rewrite IH; [reflexivity|]. unfold zlen. lia.
Qed.

Lemma inb_nth_bound i s : inb i s -> forall k, (k < length s)%nat -> 0 <= nth k i 0 < nth k s 0.
Proof.
  induction 1 as [|x n i s Hx H IH]; intros [|k] Hk; simpl in *; try lia. apply IH. lia.
Qed.

(* from an index of the shape with position k replaced, any in-range value at k gives an index of s *)
Lemma inb_set_nth_change i : forall s k m v, (k < length s)%nat -> inb i (set_nth k m s) ->
  0 <= v < nth k s 0 -> inb (set_nth k v i) s.
Proof.
  induction i as [|x i IH]; intros [|n s] [|k] m v Hk Hi Hv; simpl in *; try lia;
    inversion Hi; subst.
  - constructor; [lia | assumption].
  - fold (set_nth k v i). constructor; [assumption|]. apply (IH s k m v); auto. lia.
Qed.

Lemma inb_set_nth_bound i s k m : (k < length s)%nat -> inb i (set_nth k m s) -> 0 <= nth k i 0 < m.
Proof.
  intros Hk Hi. pose proof (inb_nth_bound _ _ Hi k) as H.
  rewrite set_nth_length, nth_set_nth in H by assumption. auto.
Qed.

Lemma np_axis_nonneg a d : 0 <= a < d -> np_axis a d = Some (Z.to_nat a).
Proof. intros H. unfold np_axis. replace ((0 <=? a) && (a <? d)) with true by lia. reflexivity. Qed.

Lemma np_axis_neg a d : - d <= a < 0 -> np_axis a d = Some (Z.to_nat (a + d)).
Proof.
  intros H. unfold np_axis. replace ((0 <=? a) && (a <? d)) with false by lia.
  replace ((- d <=? a) && (a <? 0)) with true by lia. reflexivity.
Qed.

Lemma in_range_nonneg l a : 0 <= a < zlen l -> neg_pos l a = a /\ in_range l a = true.
Proof. intros H. unfold neg_pos, in_range. replace (a <? 0) with false by lia. split; [reflexivity | lia]. Qed.

Lemma set_neg_nonneg l a v : 0 <= a < zlen l -> set_neg l a v = set_nth (Z.to_nat a) v l.
Proof.
  intros H. unfold set_neg. destruct (in_range_nonneg l a H) as [-> ->].
  apply upd_set_nth. unfold zlen in H. lia.
Qed.

Lemma at_neg_nonneg l a : 0 <= a -> at_neg l a = nth (Z.to_nat a) l 0.
Proof. intros H. unfold at_neg, neg_pos, znth. now replace (a <? 0) with false by lia. Qed.

(* negative positions: at() adds the length *)
Lemma set_neg_neg l a v : - zlen l <= a < 0 -> set_neg l a v = set_nth (Z.to_nat (a + zlen l)) v l.
Proof.
  intros H. unfold set_neg, neg_pos, in_range. replace (a <? 0) with true by lia.
  replace ((0 <=? zlen l + a) && (zlen l + a <? zlen l)) with true by lia.
  rewrite Z.add_comm. apply upd_set_nth. unfold zlen in *. lia.
Qed.
Lemma at_neg_neg l a : a < 0 -> at_neg l a = nth (Z.to_nat (a + zlen l)) l 0.
Proof. intros H. unfold at_neg, neg_pos, znth. replace (a <? 0) with true by lia. now rewrite Z.add_comm. Qed.

(* wrap_axis = NumPy's normalisation on the valid range *)
Lemma wrap_axis_nonneg a d : 0 <= a -> wrap_axis a d = a.
Proof. intros H. unfold wrap_axis. now replace (a <? 0) with false by lia. Qed.

Lemma wrap_axis_np a d : - d <= a < d ->
  exists k, np_axis a d = Some k /\ wrap_axis a d = Z.of_nat k /\ Z.of_nat k < d.
Proof.
  intros H. unfold wrap_axis. destruct (Z.ltb_spec a 0).
  - rewrite np_axis_neg by lia. eexists. split; [reflexivity|]. split; lia.
  - rewrite np_axis_nonneg by lia. eexists. split; [reflexivity|]. split; lia.
Qed.

Lemma map_at_k f l k : (k < length l)%nat -> map_at 0 (Z.of_nat k) f l = set_nth k (f (nth k l 0)) l.
Proof.
  intros Hk. rewrite map_at_spec by (unfold zlen; lia). now rewrite Z.sub_0_r, Nat2Z.id.
Qed.

Lemma np_axis_nonneg_inv a d k : 0 <= a < d -> np_axis a d = Some k -> k = Z.to_nat a.
Proof. intros H E. rewrite np_axis_nonneg in E by assumption. now injection E. Qed.

Lemma set_neg_norm l a v k : - zlen l <= a < zlen l -> np_axis a (zlen l) = Some k ->
  set_neg l a v = set_nth k v l /\ at_neg l a = nth k l 0 /\ (k < length l)%nat.
Proof.
  intros Ha Hk. destruct (Z.ltb_spec a 0).
  - rewrite np_axis_neg in Hk by lia. injection Hk as <-. rewrite set_neg_neg, at_neg_neg by lia.
    repeat split. unfold zlen in *. lia.
  - rewrite np_axis_nonneg in Hk by lia. injection Hk as <-. rewrite set_neg_nonneg, at_neg_nonneg by lia.
    repeat split. unfold zlen in *. lia.
Qed.

(* flat rank (Horner) <-> compute_indices *)
Lemma unrav_rank s k : pos s -> 0 <= k < prod s ->
  inb (compute_indices k s) s /\ horner 0 (compute_indices k s) s = k.
Proof.
  intros Hp Hk. split; [now apply unrav_inb|].
  rewrite horner_off by now apply unrav_inb. rewrite <- compute_strides_eq, <- compute_offset_eq.
  rewrite off_unrav by assumption. lia.
Qed.

Lemma rank_bound s i : inb i s -> 0 <= horner 0 i s < prod s.
Proof. intros H. rewrite horner_off by assumption. pose proof (off_bound _ _ H). lia. Qed.

Lemma zlen_inb i s : inb i s -> zlen i = zlen s.
Proof. intros H. unfold zlen. now rewrite (inb_length _ _ H). Qed.

(* ------------------------------------------------------------------------------------------ *)
(* repeat                                                                                      *)

Lemma repeat_none_spec s r k : pos s -> 1 <= r -> inb [k] (shape_repeat_none s r) ->
  shape_repeat_none s r = np_repeat_none_shape s r
  /\ inb (repeat_none_index s r [k]) s
  /\ horner 0 (repeat_none_index s r [k]) s = np_repeat_none_flat r k.
Proof.
  intros Hp Hr Hi. unfold shape_repeat_none, np_repeat_none_shape, repeat_none_index, np_repeat_none_flat in *.
  rewrite product_eq_prod in *. split; [reflexivity|]. inversion Hi; subst. cbn [hd].
  apply unrav_rank; [assumption|]. pose proof (prod_pos _ Hp).
  split; [apply Z.div_pos; lia | apply Z.div_lt_upper_bound; lia].
Qed.

(* every valid NumPy axis, negative included *)
Lemma repeat_axis_full s r a i : pos s -> 1 <= r -> - zlen s <= a < zlen s ->
  exists k, np_axis a (zlen s) = Some k
  /\ shape_repeat_axis s r a = Val (set_nth k (nth k s 0 * r) s)
  /\ np_repeat_axis_shape s r a = Some (set_nth k (nth k s 0 * r) s)
  /\ (inb i (set_nth k (nth k s 0 * r) s) ->
      np_repeat_axis_index i r a = Some (repeat_axis_index i r a) /\ inb (repeat_axis_index i r a) s).
Proof.
  intros Hp Hr Ha. destruct (wrap_axis_np a (zlen s) Ha) as [k [Hk [Hw Hlt]]]. exists k.
  assert (Hkl : (k < length s)%nat) by (unfold zlen in Hlt; lia).
  split; [assumption|].
  destruct (set_neg_norm s a (at_neg s a * r) k Ha Hk) as [E1 [E2 _]].
  split; [|split].
  - unfold shape_repeat_axis, in_range, neg_pos.
    replace ((0 <=? (if a <? 0 then zlen s + a else a)) && ((if a <? 0 then zlen s + a else a) <? zlen s)) with true
      by (destruct (a <? 0) eqn:E; lia).
    now rewrite E1, E2.
  - unfold np_repeat_axis_shape. now rewrite Hk.
  - intros Hi.
    assert (Hl : zlen i = zlen s) by (rewrite (zlen_inb _ _ Hi); unfold zlen; now rewrite set_nth_length).
    assert (Hli : (k < length i)%nat) by (unfold zlen in Hl; lia).
    unfold repeat_axis_index, np_repeat_axis_index. rewrite Hl, Hk, Hw. rewrite map_at_k by assumption.
    split; [reflexivity|]. apply (inb_set_nth_change i s k _ _ Hkl Hi).
    pose proof (inb_set_nth_bound _ _ _ _ Hkl Hi) as Hb.
    split; [apply Z.div_pos; lia | apply Z.div_lt_upper_bound; lia].
Qed.

Lemma repeat_axis_shape_spec s r a : 0 <= a < zlen s ->
  shape_repeat_axis s r a = Val (set_nth (Z.to_nat a) (nth (Z.to_nat a) s 0 * r) s)
  /\ np_repeat_axis_shape s r a = Some (set_nth (Z.to_nat a) (nth (Z.to_nat a) s 0 * r) s).
Proof.
  intros Ha. unfold shape_repeat_axis, np_repeat_axis_shape.
  destruct (in_range_nonneg s a Ha) as [-> ->]. rewrite np_axis_nonneg by assumption.
  rewrite set_neg_nonneg, at_neg_nonneg by lia. split; reflexivity.
Qed.

Lemma repeat_axis_elem_spec s r a i : pos s -> 1 <= r -> 0 <= a < zlen s ->
  inb i (set_nth (Z.to_nat a) (nth (Z.to_nat a) s 0 * r) s) ->
  np_repeat_axis_index i r a = Some (repeat_axis_index i r a) /\ inb (repeat_axis_index i r a) s.
Proof.
  intros Hp Hr Ha Hi. destruct (repeat_axis_full s r a i Hp Hr ltac:(lia)) as [k [Hk [_ [_ H]]]].
  rewrite (np_axis_nonneg_inv _ _ _ Ha Hk) in H. now apply H.
Qed.

(* ------------------------------------------------------------------------------------------ *)
(* roll                                                                                        *)

Lemma norm_roll_mod x n : 0 < n -> norm_roll x n = x mod n.
Proof.
  intros Hn. unfold norm_roll. pose proof (Z.rem_bound_abs x n ltac:(lia)) as Hb.
  pose proof (Z.quot_rem' x n) as Hq.
  destruct (Z.ltb_spec (Z.rem x n) 0) as [Hneg|Hpos].
  - apply (Z.mod_unique x n (x ÷ n - 1)); [left; lia | lia].
  - apply (Z.mod_unique x n (x ÷ n)); [left; lia | lia].
Qed.

(* one axis, non negative or negative: same formula after NumPy's normalisation *)
Lemma roll_axis_spec s i shift a : pos s -> - zlen s <= a < zlen s -> inb i s ->
  shape_roll_axis s a = Val s
  /\ np_roll_axis_index s i shift a = Some (roll_axis_index s i shift a)
  /\ inb (roll_axis_index s i shift a) s.
Proof.
  intros Hp Ha Hi. pose proof (zlen_inb _ _ Hi) as Hl.
  unfold shape_roll_axis, normalize_axis. replace ((- zlen s <=? a) && (a <? zlen s)) with true by lia.
  split; [reflexivity|]. unfold np_roll_axis_index, roll_axis_index.
  assert (Hgen : forall k, (k < length s)%nat ->
    inb (set_nth k ((nth k i 0 - shift) mod nth k s 0) i) s).
  { intros k Hk. apply (inb_set_nth_change i s k (nth k s 0)); [assumption| |].
    - now rewrite set_nth_same.
    - apply Z.mod_pos_bound. pose proof (inb_nth_bound _ _ Hi k Hk). lia. }
  destruct (Z.lt_ge_cases a 0) as [Hneg|Hnn].
  - rewrite np_axis_neg by lia. rewrite set_neg_neg, !at_neg_neg by lia. rewrite Hl.
    set (k := Z.to_nat (a + zlen s)). assert (Hk : (k < length s)%nat) by (unfold zlen in *; lia).
    rewrite norm_roll_mod by (pose proof (inb_nth_bound _ _ Hi k Hk); lia). split; [reflexivity | now apply Hgen].
  - rewrite np_axis_nonneg by lia. rewrite set_neg_nonneg, !at_neg_nonneg by lia.
    set (k := Z.to_nat a). assert (Hk : (k < length s)%nat) by (unfold zlen in *; lia).
    rewrite norm_roll_mod by (pose proof (inb_nth_bound _ _ Hi k Hk); lia). split; [reflexivity | now apply Hgen].
Qed.

(* axis = None: flatten, roll the 1-d array, reshape back *)
Lemma compute_indices_1 k n : compute_indices k [n] = [k / 1 mod n].
Proof. unfold compute_indices. rewrite compute_strides_eq. reflexivity. Qed.

Lemma roll_none_spec s i shift : pos s -> inb i s ->
  inb (roll_none_index s i shift) s
  /\ horner 0 (roll_none_index s i shift) s = np_roll_none_flat s shift (horner 0 i s).
Proof.
  intros Hp Hi. pose proof (prod_pos _ Hp) as Hn. pose proof (rank_bound _ _ Hi) as Hk.
  unfold roll_none_index, np_roll_none_flat, reshape_index. rewrite product_eq_prod.
  rewrite compute_indices_1.
  assert (Hoff : compute_offset i (compute_strides s) = horner 0 i s).
  { rewrite compute_offset_eq, compute_strides_eq, horner_off by assumption. lia. }
  rewrite Hoff. set (k := horner 0 i s) in *. rewrite Z.div_1_r, (Z.mod_small k) by lia.
  assert (Hr : roll_axis_index [prod s] [k] shift 0 = [norm_roll (k - shift) (prod s)]) by reflexivity.
  rewrite Hr, norm_roll_mod by lia.
  assert (Ho : compute_offset [(k - shift) mod prod s] (compute_strides [prod s]) = (k - shift) mod prod s).
  { rewrite compute_offset_eq, compute_strides_eq. cbn [off strides prod]. ring. }
  rewrite Ho. apply unrav_rank; [assumption|]. apply Z.mod_pos_bound. lia.
Qed.

(* ------------------------------------------------------------------------------------------ *)
(* pad                                                                                         *)

Lemma forallb_map {A B} (f : B -> bool) (g : A -> B) l : forallb f (map g l) = forallb (fun x => f (g x)) l.
Proof. induction l; simpl; [reflexivity | now rewrite IHl]. Qed.
Lemma forallb_seq_shift (f : nat -> bool) n : forallb f (seq 1 n) = forallb (fun k => f (S k)) (seq 0 n).
Proof. rewrite <- seq_shift. apply forallb_map. Qed.

Lemma pad_elem_spec s : forall i w, length i = length s -> (length s <= length w)%nat ->
  pad_index i s w = doc_pad_index s w i.
Proof.
  unfold doc_pad_index.
  induction s as [|n s IH]; intros [|x i] [|p w] Hi Hw; simpl in Hi, Hw; try lia; try reflexivity.
  cbn [pad_index length seq forallb map nth]. rewrite forallb_seq_shift, map_seq_shift. cbn [nth].
  rewrite IH by lia.
  destruct (Z.leb_spec p x), (Z.ltb_spec x (p + n)), (Z.geb_spec x (n + p)), (Z.ltb_spec (x - p) 0);
    cbn [andb orb]; try lia; try reflexivity.
  destruct (forallb _ _); reflexivity.
Qed.

Lemma pad_inb s : forall i w j, pad_index i s w = Some j -> length i = length s ->
  (length s <= length w)%nat -> inb j s.
Proof.
  induction s as [|n s IH]; intros [|x i] [|p w] j H Hl Hw; simpl in Hl, Hw; try lia; cbn [pad_index] in H;
    try (injection H as <-; constructor).
  destruct ((x >=? n + p) || (x - p <? 0)) eqn:E; [discriminate|].
  destruct (pad_index i s w) eqn:E'; [|discriminate]. injection H as <-.
  constructor; [lia | apply (IH i w); auto; lia].
Qed.

Lemma nth_firstn_lt {A} (l : list A) d : forall n k, (k < n)%nat -> nth k (firstn n l) d = nth k l d.
Proof. induction l as [|x t IH]; intros [|n] [|k] H; simpl; try lia; try reflexivity. apply IH. lia. Qed.
Lemma nth_skipn_add {A} (l : list A) d : forall n k, nth k (skipn n l) d = nth (n + k) l d.
Proof. induction l as [|x t IH]; intros [|n] k; simpl; try reflexivity; [now destruct k | apply IH]. Qed.

Lemma pad_shape3_nth s : forall b a, (length s <= length b)%nat -> (length s <= length a)%nat ->
  pad_shape3 s b a = map (fun k => nth k s 0 + nth k b 0 + nth k a 0) (seq 0 (length s)).
Proof.
  induction s as [|x s IH]; intros [|p b] [|q a] Hb Ha; simpl in Hb, Ha; try lia; try reflexivity.
  cbn [pad_shape3 length seq map nth]. rewrite map_seq_shift. cbn [nth]. now rewrite IH by lia.
Qed.

Lemma pad_shape_spec s w : zlen s * 2 = zlen w ->
  exists d, shape_pad s w = Val d /\ doc_pad_shape s w = Some d.
Proof.
  intros H. unfold shape_pad, doc_pad_shape. unfold zlen in H.
  replace (zlen s * 2 =? zlen w) with true by (unfold zlen; lia).
  replace (length w =? 2 * length s)%nat with true by (symmetry; apply Nat.eqb_eq; lia).
  eexists. split; [reflexivity|]. f_equal.
  rewrite pad_shape3_nth by (rewrite ?firstn_length, ?skipn_length; lia).
  apply map_ext_in. intros k Hk. apply in_seq in Hk.
  rewrite nth_firstn_lt by lia. now rewrite nth_skipn_add.
Qed.

(* ------------------------------------------------------------------------------------------ *)
(* take                                                                                        *)

Lemma np_wrap_index_in n x : 0 <= x < n -> np_wrap_index n x = Some x.
Proof. intros H. unfold np_wrap_index. now replace ((0 <=? x) && (x <? n)) with true by lia. Qed.

Lemma znth_Forall (P : Z -> Prop) l x : Forall P l -> 0 <= x < zlen l -> P (znth l x).
Proof.
  intros HF Hx. rewrite Forall_forall in HF. apply HF. unfold znth. apply nth_In. unfold zlen in Hx. lia.
Qed.

Lemma take_entry_np e n : - n <= e < n -> n <= 2 ^ 64 ->
  np_wrap_index n e = Some (take_entry e n) /\ 0 <= take_entry e n < n.
Proof.
  intros He Hn. unfold np_wrap_index, take_entry. destruct (Z.lt_ge_cases e 0).
  - replace (e <? 0) with true by lia. rewrite wrap_small by lia.
    replace ((0 <=? e) && (e <? n)) with false by lia. cbn [andb]. replace (- n <=? e) with true by lia.
    split; [reflexivity | lia].
  - replace (e <? 0) with false by lia. rewrite wrap_small by lia.
    replace ((0 <=? e) && (e <? n)) with true by lia. split; [reflexivity | lia].
Qed.

Lemma take_at_none ind s : forall i c axis, axis < c -> length i = length s -> take_at c axis ind s i = i.
Proof.
  induction s as [|n s IH]; intros [|x i] c axis H Hl; simpl in Hl; try lia; [reflexivity|].
  cbn [take_at]. replace (c =? axis) with false by lia. now rewrite IH by lia.
Qed.

Lemma take_at_spec ind s : forall i c axis, 0 <= axis - c < zlen s -> length i = length s ->
  take_at c axis ind s i =
  set_nth (Z.to_nat (axis - c))
    (take_entry (znth ind (nth (Z.to_nat (axis - c)) i 0)) (nth (Z.to_nat (axis - c)) s 0)) i.
Proof.
  induction s as [|n s IH]; intros [|x i] c axis H Hl; unfold zlen in H; simpl in H, Hl; try lia.
  cbn [take_at]. destruct (Z.eqb_spec c axis) as [->|Hne].
  - rewrite Z.sub_diag. cbn. now rewrite take_at_none by lia.
  - replace (Z.to_nat (axis - c)) with (S (Z.to_nat (axis - (c + 1)))) by lia.
    rewrite set_nth_S. cbn [nth]. rewrite IH; [reflexivity | unfold zlen; lia | lia].
Qed.

(* every valid NumPy axis and every valid NumPy entry (negative ones counted from the end) *)
Lemma take_axis_full s ind a i : - zlen s <= a < zlen s ->
  exists k, np_axis a (zlen s) = Some k
  /\ shape_take_axis s ind a = set_nth k (zlen ind) s
  /\ np_take_axis_shape s ind a = Some (set_nth k (zlen ind) s)
  /\ (Forall (fun x => - nth k s 0 <= x < nth k s 0) ind -> nth k s 0 <= 2 ^ 64 ->
      inb i (set_nth k (zlen ind) s) ->
      np_take_axis_index s ind i a = Some (take_axis_index s ind i a) /\ inb (take_axis_index s ind i a) s).
Proof.
  intros Ha. destruct (wrap_axis_np a (zlen s) Ha) as [k [Hk [Hw Hlt]]]. exists k.
  assert (Hkl : (k < length s)%nat) by (unfold zlen in Hlt; lia).
  split; [assumption|]. split; [|split].
  - unfold shape_take_axis. rewrite Hw. now rewrite map_at_k.
  - unfold np_take_axis_shape. now rewrite Hk.
  - intros HF Hn Hi.
    assert (Hl : length i = length s) by (rewrite (inb_length _ _ Hi); now apply set_nth_length).
    pose proof (inb_set_nth_bound _ _ _ _ Hkl Hi) as Hb.
    pose proof (znth_Forall _ _ _ HF Hb) as Hx. cbv beta in Hx.
    destruct (take_entry_np _ _ Hx Hn) as [E Hr].
    unfold take_axis_index, np_take_axis_index. rewrite Hk, Hw, E.
    rewrite take_at_spec by (rewrite ?Z.sub_0_r; auto; lia). rewrite Z.sub_0_r, Nat2Z.id.
    split; [reflexivity|]. now apply (inb_set_nth_change i s k _ _ Hkl Hi).
Qed.

Lemma take_axis_shape_spec s ind a : 0 <= a < zlen s ->
  shape_take_axis s ind a = set_nth (Z.to_nat a) (zlen ind) s
  /\ np_take_axis_shape s ind a = Some (set_nth (Z.to_nat a) (zlen ind) s).
Proof.
  intros Ha. destruct (take_axis_full s ind a [] ltac:(lia)) as [k [Hk [H1 [H2 _]]]].
  rewrite (np_axis_nonneg_inv _ _ _ Ha Hk) in *. now split.
Qed.

Lemma take_axis_elem_spec s ind a i : 0 <= a < zlen s ->
  Forall (fun x => 0 <= x < nth (Z.to_nat a) s 0) ind -> nth (Z.to_nat a) s 0 <= 2 ^ 64 ->
  inb i (set_nth (Z.to_nat a) (zlen ind) s) ->
  np_take_axis_index s ind i a = Some (take_axis_index s ind i a) /\ inb (take_axis_index s ind i a) s.
Proof.
  intros Ha HF Hw Hi. destruct (take_axis_full s ind a i ltac:(lia)) as [k [Hk [_ [_ H]]]].
  rewrite (np_axis_nonneg_inv _ _ _ Ha Hk) in H. apply H; auto.
  eapply Forall_impl; [|exact HF]. cbv beta. intros x Hx. lia.
Qed.

Lemma take_none_full s ind k : pos s -> prod s <= 2 ^ 64 -> Forall (fun x => - prod s <= x < prod s) ind ->
  inb [k] (shape_take_none ind) ->
  shape_take_none ind = np_take_none_shape ind
  /\ inb (take_none_index s ind [k]) s
  /\ np_take_none_flat s ind k = Some (horner 0 (take_none_index s ind [k]) s).
Proof.
  intros Hp Hw HF Hi. split; [reflexivity|]. unfold shape_take_none in Hi. inversion Hi; subst.
  pose proof (znth_Forall _ _ _ HF ltac:(eassumption)) as Hx. cbv beta in Hx.
  destruct (take_entry_np _ _ Hx Hw) as [E Hr].
  unfold take_none_index, np_take_none_flat. cbn [hd]. rewrite product_eq_prod, E.
  fold (compute_indices (take_entry (znth ind k) (prod s)) s). destruct (unrav_rank s _ Hp Hr) as [Hr1 Hr2].
  split; [assumption|]. now rewrite Hr2.
Qed.

Lemma take_none_spec s ind k : pos s -> prod s <= 2 ^ 64 -> Forall (fun x => 0 <= x < prod s) ind ->
  inb [k] (shape_take_none ind) ->
  shape_take_none ind = np_take_none_shape ind
  /\ inb (take_none_index s ind [k]) s
  /\ np_take_none_flat s ind k = Some (horner 0 (take_none_index s ind [k]) s).
Proof.
  intros Hp Hw HF Hi. apply take_none_full; auto.
  eapply Forall_impl; [|exact HF]. cbv beta. intros x Hx. pose proof (prod_pos _ Hp). lia.
Qed.

(* ------------------------------------------------------------------------------------------ *)
(* concatenate                                                                                 *)

Lemma list_eqb_eq a : forall b, list_eqb a b = true -> a = b.
Proof.
  induction a as [|x a IH]; intros [|y b] H; simpl in H; try discriminate; [reflexivity|].
  apply andb_prop in H as [H1 H2]. apply Z.eqb_eq in H1. subst. f_equal. now apply IH.
Qed.

Lemma shape_concat_from_past a : forall k axis, axis < k -> shape_concat_from k axis a a = Some a.
Proof.
  induction a as [|x a IH]; intros k axis H; cbn [shape_concat_from]; [reflexivity|].
  replace (k =? axis) with false by lia. rewrite Z.eqb_refl, IH by lia. reflexivity.
Qed.

Lemma shape_concat_from_spec a : forall b k axis, 0 <= axis - k < zlen a -> length a = length b ->
  set_nth (Z.to_nat (axis - k)) 0 a = set_nth (Z.to_nat (axis - k)) 0 b ->
  shape_concat_from k axis a b =
  Some (set_nth (Z.to_nat (axis - k)) (nth (Z.to_nat (axis - k)) a 0 + nth (Z.to_nat (axis - k)) b 0) a).
Proof.
  induction a as [|x a IH]; intros [|y b] k axis Hk Hl He; unfold zlen in Hk; simpl in Hk, Hl; try lia.
  cbn [shape_concat_from]. destruct (Z.eqb_spec k axis) as [->|Hne].
  - rewrite Z.sub_diag in *. cbn in He |- *. injection He as ->.
    now rewrite shape_concat_from_past by lia.
  - replace (Z.to_nat (axis - k)) with (S (Z.to_nat (axis - (k + 1)))) in * by lia.
    rewrite !set_nth_S in He. injection He as -> He. rewrite Z.eqb_refl.
    rewrite set_nth_S. cbn [nth]. rewrite IH; [reflexivity | unfold zlen; lia | lia | assumption].
Qed.

Lemma set_nth_change_both k m a b : set_nth k 0 a = set_nth k 0 b -> length a = length b ->
  (k < length a)%nat -> set_nth k m a = set_nth k m b.
Proof.
  revert a b. induction k as [|k IH]; intros [|x a] [|y b] He Hl Hk; simpl in Hl, Hk; try lia.
  - cbn in *. now injection He as ->.
  - rewrite !set_nth_S in *. injection He as -> He. f_equal. apply IH; auto; lia.
Qed.

Lemma firstn_all' {A} (l : list A) n : n = length l -> firstn n l = l.
Proof. intros ->. apply firstn_all. Qed.

Lemma znth_of_nat l k : znth l (Z.of_nat k) = nth k l 0.
Proof. unfold znth. now rewrite Nat2Z.id. Qed.

(* every valid NumPy axis, negative included *)
Lemma concat_axis_full a b axis d i : - zlen a <= axis < zlen a ->
  np_concat_axis_shape a b axis = Some d ->
  shape_concat_axis a b axis = Val d
  /\ (inb i d -> concat_axis_index a b i axis = np_concat_axis_index a i axis
      /\ match concat_axis_index a b i axis with
         | OpLeft j => inb j a | OpRight j => inb j b | OpNeither => False end).
Proof.
  intros Ha H. destruct (wrap_axis_np axis (zlen a) Ha) as [k [Hk [Hw Hlt]]].
  assert (Hkl : (k < length a)%nat) by (unfold zlen in Hlt; lia).
  unfold np_concat_axis_shape in H. rewrite Hk in H.
  destruct (length a =? length b)%nat eqn:El; [|discriminate]. apply Nat.eqb_eq in El.
  destruct (list_eqb _ _) eqn:Ee; [|discriminate]. apply list_eqb_eq in Ee. cbn [andb] in H. injection H as <-.
  split.
  - unfold shape_concat_axis. rewrite Hw.
    rewrite shape_concat_from_spec; rewrite ?Z.sub_0_r, ?Nat2Z.id; auto; lia.
  - intros Hi.
    assert (Hli : length i = length a) by (rewrite (inb_length _ _ Hi); now apply set_nth_length).
    pose proof (inb_set_nth_bound _ _ _ _ Hkl Hi) as Hb.
    unfold concat_axis_index, np_concat_axis_index. rewrite Hk, Hw, !znth_of_nat.
    destruct (Z.ltb_spec (nth k i 0) (nth k a 0)) as [Hlt'|Hge].
    + rewrite firstn_all' by auto. split; [reflexivity|].
      rewrite <- (set_nth_same i k) by lia. apply (inb_set_nth_change i a k _ _ Hkl Hi). lia.
    + replace (nth k i 0 <? nth k b 0 + nth k a 0) with true by lia.
      rewrite map_at_k by lia.
      rewrite firstn_all' by (rewrite set_nth_length; lia). split; [reflexivity|].
      rewrite (set_nth_change_both k _ a b Ee El Hkl) in Hi.
      apply (inb_set_nth_change i b k _ _ ltac:(lia) Hi). lia.
Qed.

Lemma concat_axis_shape_spec a b axis d : 0 <= axis < zlen a ->
  np_concat_axis_shape a b axis = Some d -> shape_concat_axis a b axis = Val d.
Proof. intros Ha H. exact (proj1 (concat_axis_full a b axis d [] ltac:(lia) H)). Qed.

Lemma concat_axis_elem_spec a b axis d i : 0 <= axis < zlen a ->
  np_concat_axis_shape a b axis = Some d -> inb i d ->
  concat_axis_index a b i axis = np_concat_axis_index a i axis
  /\ match concat_axis_index a b i axis with
     | OpLeft j => inb j a | OpRight j => inb j b | OpNeither => False end.
Proof. intros Ha H Hi. exact (proj2 (concat_axis_full a b axis d i ltac:(lia) H) Hi). Qed.

Lemma concat_none_spec a b k : pos a -> pos b -> inb [k] (shape_concat_none a b) ->
  shape_concat_none a b = np_concat_none_shape a b
  /\ match concat_none_index a b [k] with
     | OpLeft j => inb j a /\ np_concat_none_flat a k = (false, horner 0 j a)
     | OpRight j => inb j b /\ np_concat_none_flat a k = (true, horner 0 j b)
     | OpNeither => False end.
Proof.
  intros Ha Hb Hi. unfold shape_concat_none, np_concat_none_shape, concat_none_index, np_concat_none_flat in *.
  rewrite !product_eq_prod in *. split; [reflexivity|]. inversion Hi; subst. cbn [hd].
  destruct (Z.ltb_spec k (prod a)).
  - destruct (unrav_rank a k Ha ltac:(lia)) as [Hr1 Hr2]. now rewrite Hr2.
  - replace (k <? prod a + prod b) with true by lia.
    destruct (unrav_rank b (k - prod a) Hb ltac:(lia)) as [Hr1 Hr2]. now rewrite Hr2.
Qed.

(* ------------------------------------------------------------------------------------------ *)
(* tril / triu / tri / eye / diagflat: the keep / fill decision and the source index           *)

Lemma tril_spec s i k : (2 <= length s)%nat -> inb i s ->
  tril_index s i k = (if np_tril_keep i k then Some (np_tri_source s i) else None)
  /\ (forall j, tril_index s i k = Some j -> inb j s).
Proof.
  intros Hs Hi. pose proof (inb_length _ _ Hi) as Hl. unfold tril_index, np_tril_keep, np_tri_source.
  replace (1 <? zlen s) with true by (unfold zlen; lia). rewrite firstn_all' by auto.
  destruct s as [|n [|m s]]; simpl in Hs; try lia.
  destruct (Z.gtb_spec (znth i (zlen i - 1)) (znth i (zlen i - 2) + k)), (Z.leb_spec (znth i (zlen i - 1)) (znth i (zlen i - 2) + k));
    try lia; (split; [reflexivity|]); intros j Hj; try discriminate. now injection Hj as <-.
Qed.

Lemma triu_spec s i k : (2 <= length s)%nat -> inb i s ->
  triu_index s i k = (if np_triu_keep i k then Some (np_tri_source s i) else None)
  /\ (forall j, triu_index s i k = Some j -> inb j s).
Proof.
  intros Hs Hi. pose proof (inb_length _ _ Hi) as Hl. unfold triu_index, np_triu_keep, np_tri_source.
  replace (1 <? zlen s) with true by (unfold zlen; lia). rewrite firstn_all' by auto.
  destruct s as [|n [|m s]]; simpl in Hs; try lia.
  destruct (Z.gtb_spec (znth i (zlen i - 2)) (znth i (zlen i - 1) - k)), (Z.geb_spec (znth i (zlen i - 1)) (znth i (zlen i - 2) + k));
    try lia; (split; [reflexivity|]); intros j Hj; try discriminate. now injection Hj as <-.
Qed.

(* 1-d source: n x n result whose rows are the source *)
Lemma tril_triu_1d_spec n r c k : 0 <= r < n -> 0 <= c < n ->
  shape_tri_like [n] = [n; n]
  /\ tril_index [n] [r; c] k = (if np_tril_keep [r; c] k then Some (np_tri_source [n] [r; c]) else None)
  /\ triu_index [n] [r; c] k = (if np_triu_keep [r; c] k then Some (np_tri_source [n] [r; c]) else None)
  /\ inb (np_tri_source [n] [r; c]) [n].
Proof.
  intros Hr Hc. split; [reflexivity|]. unfold tril_index, triu_index, np_tril_keep, np_triu_keep, np_tri_source.
  change (znth [r; c] (zlen [r; c] - 1)) with c. change (znth [r; c] (zlen [r; c] - 2)) with r.
  change (znth [r; c] 1) with c. change (1 <? zlen [n]) with false. cbv iota. split; [|split].
  - destruct (Z.gtb_spec c (r + k)), (Z.leb_spec c (r + k)); try lia; reflexivity.
  - destruct (Z.gtb_spec r (c - k)), (Z.geb_spec c (r + k)); try lia; reflexivity.
  - repeat constructor; lia.
Qed.

Lemma tri_eye_spec r c k :
  tri_is_one [r; c] k = (c <=? r + k) /\ eye_is_one [r; c] k = (c - r =? k).
Proof.
  unfold tri_is_one, eye_is_one. change (znth [r; c] 1) with c. change (znth [r; c] 0) with r. split; [reflexivity|].
  destruct (Z.eqb_spec c (r + k)), (Z.eqb_spec (c - r) k); try lia; reflexivity.
Qed.

Lemma diagflat_spec n k r c : 0 <= n -> 0 <= r < n + Z.abs k -> 0 <= c < n + Z.abs k ->
  match diagflat_index [r; c] k, np_diagflat_index [r; c] k with
  | Some [j], Some j' => j = j' /\ 0 <= j < n
  | None, None => True
  | _, _ => False
  end.
Proof.
  intros Hn Hr Hc. unfold diagflat_index, np_diagflat_index.
  change (znth [r; c] (zlen [r; c] - 1)) with c. change (znth [r; c] (zlen [r; c] - 2)) with r.
  change (znth [r; c] 1) with c. change (znth [r; c] 0) with r.
  destruct (Z.eqb_spec c (r + k)); [|exact I].
  destruct (Z.ltb_spec 0 k); split; lia.
Qed.

(* ------------------------------------------------------------------------------------------ *)
(* resize                                                                                      *)

Lemma forallb_impl {A} (f g : A -> bool) l : (forall x, f x = true -> g x = true) -> forallb f l = true -> forallb g l = true.
Proof. intros H. rewrite !forallb_forall. auto. Qed.

Lemma resize_shape_spec s d r : doc_resize_shape s d = Some r -> shape_resize s d = Val r.
Proof.
  unfold doc_resize_shape, shape_resize. intros H.
  destruct (length s =? length d)%nat eqn:El; [|discriminate]. apply Nat.eqb_eq in El.
  destruct (forallb (fun x => 1 <=? x) d) eqn:Ef; [|discriminate]. injection H as <-.
  replace (zlen s =? zlen d) with true by (unfold zlen; lia).
  rewrite (forallb_impl (fun x => 1 <=? x) (fun x => 0 <? x) d); [reflexivity | intros; lia | assumption].
Qed.

Lemma resize_elem_spec s : forall d i, length s = length d -> pos s -> inb i d ->
  resize_index i s d = doc_resize_index s d i /\ inb (resize_index i s d) s.
Proof.
  unfold doc_resize_index.
  induction s as [|n s IH]; intros [|m d] i Hl Hp Hi; simpl in Hl; try lia.
  - inversion Hi; subst. split; [reflexivity | constructor].
  - inversion Hi; subst. inversion Hp; subst. cbn [resize_index length seq map nth].
    rewrite map_seq_shift. cbn [nth].
    destruct (IH d is ltac:(lia) ltac:(assumption) ltac:(assumption)) as [E Hin]. rewrite E.
    split; [now rewrite (Z.mul_comm n i0)|]. rewrite <- E. constructor; [|assumption].
    split; [apply Z.div_pos; nia | apply Z.div_lt_upper_bound; nia].
Qed.

(* ------------------------------------------------------------------------------------------ *)
(* one listed axis: sliding_window(a, w, axis) and expand(a, axis, spacing)                    *)

Lemma normalize_axis_np a d : - d <= a < d ->
  exists k, np_axis a d = Some k /\ normalize_axis a d = Some (Z.of_nat k) /\ (Z.of_nat k < d).
Proof.
  intros H. unfold normalize_axis. replace ((- d <=? a) && (a <? d)) with true by lia.
  destruct (Z.ltb_spec a 0).
  - rewrite np_axis_neg by lia. eexists. split; [reflexivity|]. split; [f_equal; lia | lia].
  - rewrite np_axis_nonneg by lia. eexists. split; [reflexivity|]. split; [f_equal; lia | lia].
Qed.

Lemma map_seq_nth l : map (fun t => nth t l 0) (seq 0 (length l)) = l.
Proof.
  induction l as [|x l IH]; [reflexivity|]. cbn [length seq map nth]. rewrite map_seq_shift. cbn [nth]. now rewrite IH.
Qed.

Lemma map_seq_set_nth (g : Z -> Z) l : forall k, (k < length l)%nat ->
  map (fun t => if Nat.eqb k t then g (nth t l 0) else nth t l 0) (seq 0 (length l)) = set_nth k (g (nth k l 0)) l.
Proof.
  induction l as [|x l IH]; intros [|k] Hk; simpl in Hk; try lia.
  - cbn [length seq map nth Nat.eqb]. rewrite map_seq_shift. cbn [nth Nat.eqb]. rewrite map_seq_nth. reflexivity.
  - cbn [length seq map nth Nat.eqb]. rewrite map_seq_shift. cbn [nth Nat.eqb]. rewrite set_nth_S.
    f_equal. apply IH. lia.
Qed.

Lemma inb_app_inv' i : forall s1 s2, inb i (s1 ++ s2) -> forall j t, i = j ++ t -> length j = length s1 ->
  inb j s1 /\ inb t s2.
Proof.
  induction i as [|x i IH]; intros [|n s1] s2 H j t E Hl.
  - destruct j; [|discriminate]. simpl in E. subst. split; [constructor | assumption].
  - destruct j; simpl in Hl; [lia | discriminate].
  - destruct j; simpl in Hl; [|lia]. simpl in E. subst. split; [constructor | assumption].
  - destruct j as [|y j]; simpl in Hl; [lia|]. simpl in E. injection E as -> E. simpl in H. inversion H; subst.
    destruct (IH s1 s2 ltac:(assumption) j t eq_refl ltac:(lia)) as [H1 H2]. split; [constructor|]; assumption.
Qed.

(* sliding window along one axis: shape = source with that extent reduced by w-1, plus a window axis of extent w;
   element (j, t) reads the source at j with t added to the coordinate of the axis *)
Lemma sliding_window_axis_spec s w a j t : pos s -> - zlen s <= a < zlen s ->
  exists k, np_axis a (zlen s) = Some k
  /\ shape_sliding_window_axes s [w] [a] = Val (set_nth k (nth k s 0 - (w - 1)) s ++ [w])
  /\ np_sw_shape s [w] [a] = set_nth k (nth k s 0 - (w - 1)) s ++ [w]
  /\ (inb (j ++ [t]) (set_nth k (nth k s 0 - (w - 1)) s ++ [w]) -> length j = length s ->
      sliding_window_axes_index (length s) (j ++ [t]) [a] = np_sw_index (length s) (j ++ [t]) [a]
      /\ inb (sliding_window_axes_index (length s) (j ++ [t]) [a]) s).
Proof.
  intros Hp Ha. destruct (normalize_axis_np a (zlen s) Ha) as [k [Hk [Hn Hlt]]]. exists k.
  assert (Hkl : (k < length s)%nat) by (unfold zlen in Hlt; lia).
  split; [assumption|]. split; [|split].
  - unfold shape_sliding_window_axes. cbn [normalize_axes]. rewrite Hn. cbn [sw_shape_loop].
    rewrite set_neg_nonneg, at_neg_nonneg by lia. now rewrite Nat2Z.id.
  - unfold np_sw_shape. f_equal. cbn [map np_sw_sum]. rewrite Hk.
    rewrite <- (map_seq_set_nth (fun x => x - (w - 1)) s k Hkl). apply map_ext. intros u.
    destruct (Nat.eqb k u); lia.
  - intros Hi Hl. unfold sliding_window_axes_index, np_sw_index.
    rewrite firstn_app, skipn_app, <- Hl, firstn_all, skipn_all, Nat.sub_diag. cbn [firstn skipn app]. rewrite app_nil_r.
    assert (Hzl : zlen j = zlen s) by (unfold zlen; now rewrite Hl).
    cbn [sw_index_loop np_sw_sum]. fold (zlen j). rewrite Hzl, Hk.
    destruct (set_neg_norm j a (at_neg j a + t) k ltac:(lia) ltac:(now rewrite Hzl)) as [E1 [E2 _]].
    rewrite E1, E2.
    assert (Hsplit : inb j (set_nth k (nth k s 0 - (w - 1)) s) /\ 0 <= t < w).
    { destruct (inb_app_inv' _ _ _ Hi j [t] eq_refl ltac:(rewrite set_nth_length; lia)) as [H1 H2]. split; [assumption|].
      inversion H2; subst. assumption. }
    destruct Hsplit as [Hj Ht]. split.
    + rewrite <- (map_seq_set_nth (fun x => x + t) j k ltac:(lia)). apply map_ext_in. intros u Hu.
      apply in_seq in Hu. rewrite app_nth1 by lia. destruct (Nat.eqb k u); lia.
    + apply (inb_set_nth_change j s k _ _ Hkl Hj). pose proof (inb_set_nth_bound _ _ _ _ Hkl Hj). lia.
Qed.

(* expand along one axis with spacing q >= 0 *)
Lemma expand_axis_spec s a q i : pos s -> 0 <= q -> - zlen s <= a < zlen s ->
  exists k, np_axis a (zlen s) = Some k
  /\ shape_expand s [a] [q] = Val (set_nth k (nth k s 0 + (nth k s 0 - 1) * q) s)
  /\ doc_expand_shape1 s a q = Some (set_nth k (nth k s 0 + (nth k s 0 - 1) * q) s)
  /\ (inb i (set_nth k (nth k s 0 + (nth k s 0 - 1) * q) s) ->
      doc_expand_index1 i a q = Some (expand_index s i [a] [q])
      /\ forall j, expand_index s i [a] [q] = Some j -> inb j s).
Proof.
  intros Hp Hq Ha. destruct (normalize_axis_np a (zlen s) Ha) as [k [Hk [Hn Hlt]]]. exists k.
  assert (Hkl : (k < length s)%nat) by (unfold zlen in Hlt; lia).
  split; [assumption|]. split; [|split].
  - unfold shape_expand. cbn [normalize_axes]. rewrite Hn. cbn [expand_shape_loop].
    rewrite set_neg_nonneg, at_neg_nonneg by lia. now rewrite Nat2Z.id.
  - unfold doc_expand_shape1. now rewrite Hk.
  - intros Hi. assert (Hl : length i = length s) by (rewrite (inb_length _ _ Hi); now apply set_nth_length).
    assert (Hzl : zlen i = zlen s) by (unfold zlen; now rewrite Hl).
    unfold expand_index, doc_expand_index1. cbn [normalize_axes]. rewrite Hn, Hzl, Hk. rewrite <- Hl, firstn_all.
    cbn [expand_index_loop]. rewrite set_neg_nonneg, at_neg_nonneg by lia. rewrite Nat2Z.id.
    pose proof (inb_set_nth_bound _ _ _ _ Hkl Hi) as Hb. set (x := nth k i 0) in *.
    pose proof (Z.mod_pos_bound x (q + 1) ltac:(lia)) as Hm.
    destruct (Z.ltb_spec 0 (x mod (q + 1))) as [Hpos|Hz].
    + replace (x mod (q + 1) =? 0) with false by lia. split; [reflexivity|]. intros j Hj. discriminate.
    + replace (x mod (q + 1) =? 0) with true by lia. split; [reflexivity|]. intros j Hj. injection Hj as <-.
      apply (inb_set_nth_change i s k _ _ Hkl Hi).
      pose proof (Z.div_mod x (q + 1) ltac:(lia)) as Hd.
      split; [apply Z.div_pos; lia|]. apply Z.div_lt_upper_bound; [lia|]. nia.
Qed.

(* diagonal of a matrix (axes 0,1), ANY offset: NumPy's length (clamped at 0) and a[t - min(offset,0), t + max(offset,0)] *)
Lemma diagonal_2d_spec n1 n2 offset t : 1 <= n1 -> 1 <= n2 ->
  shape_diagonal [n1; n2] offset 0 1 = Val [np_diag_len n1 n2 offset]
  /\ np_diagonal_shape [n1; n2] offset 0 1 = Some [np_diag_len n1 n2 offset]
  /\ (0 <= t < np_diag_len n1 n2 offset ->
      np_diagonal_index 2 [t] offset 0 1 = Some (diagonal_index 2 [t] offset 0 1)
      /\ inb (diagonal_index 2 [t] offset 0 1) [n1; n2]).
Proof.
  intros H1 H2.
  assert (Hlen : np_diag_len n1 n2 offset =
     Z.max 0 (if 0 <=? offset then Z.min n1 (n2 - offset) else Z.min (n1 + offset) n2)) by reflexivity.
  split; [|split].
  - unfold shape_diagonal. cbn; change (Pos.to_nat 1) with 1%nat; cbv iota. rewrite Hlen.
    destruct (Z.ltb_spec offset 0), (Z.ltb_spec 0 offset), (Z.leb_spec 0 offset); try lia.
    + destruct (Z.ltb_spec (n1 + offset) n2) as [Hc|Hc];
        [destruct (Z.ltb_spec (n1 + offset) 0) | destruct (Z.ltb_spec n2 0)]; do 2 f_equal; lia.
    + destruct (Z.ltb_spec n1 (n2 - offset)) as [Hc|Hc];
        [destruct (Z.ltb_spec n1 0) | destruct (Z.ltb_spec (n2 - offset) 0)]; do 2 f_equal; lia.
    + destruct (Z.ltb_spec n1 n2) as [Hc|Hc];
        [destruct (Z.ltb_spec n1 0) | destruct (Z.ltb_spec n2 0)]; do 2 f_equal; lia.
  - unfold np_diagonal_shape. cbn; change (Pos.to_nat 1) with 1%nat; cbv iota. reflexivity.
  - intros Ht. rewrite Hlen in Ht. split.
    + unfold np_diagonal_index, diagonal_index. cbn; change (Pos.to_nat 1) with 1%nat; cbv iota.
      destruct (Z.ltb_spec offset 0), (Z.ltb_spec 0 offset); (f_equal; f_equal; [lia | f_equal; lia]).
    + unfold diagonal_index. cbn; change (Pos.to_nat 1) with 1%nat; cbv iota.
      destruct (Z.ltb_spec offset 0), (Z.ltb_spec 0 offset), (Z.leb_spec 0 offset); try lia;
        repeat constructor; lia.
Qed.

(* ------------------------------------------------------------------------------------------ *)
(* compress = take of the true positions                                                       *)

Lemma filter_map_comm {A B} (f : B -> bool) (g : A -> B) l : filter f (map g l) = map g (filter (fun x => f (g x)) l).
Proof. induction l as [|x l IH]; simpl; [reflexivity|]. rewrite IH. now destruct (f (g x)). Qed.

Lemma nonzero_pos_filter c : forall k,
  nonzero_pos (Z.of_nat k) c = map Z.of_nat (filter (fun j => negb (nth (j - k) c 0 =? 0)) (seq k (length c))).
Proof.
  induction c as [|x t IH]; intros k; [reflexivity|].
  cbn [nonzero_pos length seq filter]. rewrite Nat.sub_diag. change (nth 0 (x :: t) 0) with x.
  replace (Z.of_nat k + 1) with (Z.of_nat (S k)) by lia. rewrite IH.
  assert (E : filter (fun j => negb (nth (j - k) (x :: t) 0 =? 0)) (seq (S k) (length t))
            = filter (fun j => negb (nth (j - S k) t 0 =? 0)) (seq (S k) (length t))).
  { apply filter_ext_in. intros j Hj. apply in_seq in Hj. replace (j - k)%nat with (S (j - S k)) by lia. reflexivity. }
  rewrite E. destruct (x =? 0); reflexivity.
Qed.

Lemma nonzero_pos_spec c : nonzero_pos 0 c = np_true_positions c.
Proof.
  change 0 with (Z.of_nat 0). rewrite nonzero_pos_filter. unfold np_true_positions, zrange, zs, zlen.
  rewrite Nat2Z.id, filter_map_comm. f_equal. apply filter_ext. intros j.
  unfold znth. now rewrite Nat2Z.id, Nat.sub_0_r.
Qed.

Lemma true_positions_bound c : Forall (fun x => 0 <= x < zlen c) (np_true_positions c).
Proof.
  apply Forall_forall. intros x Hx. unfold np_true_positions in Hx. apply filter_In in Hx as [Hx _].
  unfold zrange, zlen in *. apply in_zs in Hx. lia.
Qed.

(* every valid NumPy axis, negative included; condition no longer than the axis *)
Lemma compress_axis_full s c a i : - zlen s <= a < zlen s ->
  exists k, np_axis a (zlen s) = Some k
  /\ shape_compress_axis s c a = set_nth k (zlen (np_true_positions c)) s
  /\ np_take_axis_shape s (np_true_positions c) a = Some (set_nth k (zlen (np_true_positions c)) s)
  /\ (zlen c <= nth k s 0 -> inb i (set_nth k (zlen (np_true_positions c)) s) ->
      np_take_axis_index s (np_true_positions c) i a = Some (compress_axis_index c i a) /\ inb (compress_axis_index c i a) s).
Proof.
  intros Ha. destruct (wrap_axis_np a (zlen s) Ha) as [k [Hk [Hw Hlt]]]. exists k.
  assert (Hkl : (k < length s)%nat) by (unfold zlen in Hlt; lia).
  split; [assumption|]. split; [|split].
  - unfold shape_compress_axis. rewrite nonzero_pos_spec, Hw. now rewrite map_at_k.
  - unfold np_take_axis_shape. now rewrite Hk.
  - intros Hc Hi.
    assert (Hl : zlen i = zlen s) by (rewrite (zlen_inb _ _ Hi); unfold zlen; now rewrite set_nth_length).
    pose proof (inb_set_nth_bound _ _ _ _ Hkl Hi) as Hb.
    pose proof (znth_Forall _ _ _ (true_positions_bound c) Hb) as Hx. cbv beta in Hx.
    unfold compress_axis_index, np_take_axis_index. rewrite nonzero_pos_spec, Hl, Hk, Hw.
    rewrite np_wrap_index_in by lia. rewrite map_at_k by (unfold zlen in Hl; lia).
    split; [reflexivity|]. apply (inb_set_nth_change i s k _ _ Hkl Hi). lia.
Qed.

Lemma compress_axis_spec s c a i : 0 <= a < zlen s -> zlen c <= nth (Z.to_nat a) s 0 -> nth (Z.to_nat a) s 0 <= 2 ^ 64 ->
  shape_compress_axis s c a = set_nth (Z.to_nat a) (zlen (np_true_positions c)) s
  /\ np_take_axis_shape s (np_true_positions c) a = Some (set_nth (Z.to_nat a) (zlen (np_true_positions c)) s)
  /\ (inb i (set_nth (Z.to_nat a) (zlen (np_true_positions c)) s) ->
      np_take_axis_index s (np_true_positions c) i a = Some (compress_axis_index c i a) /\ inb (compress_axis_index c i a) s).
Proof.
  intros Ha Hc _. destruct (compress_axis_full s c a i ltac:(lia)) as [k [Hk [H1 [H2 H3]]]].
  rewrite (np_axis_nonneg_inv _ _ _ Ha Hk) in *. split; [assumption|]. split; [assumption|]. now apply H3.
Qed.

(* ------------------------------------------------------------------------------------------ *)
(* generators: arange count, linspace element                                                  *)

Lemma arange_len_spec start stop p q : p <> 0 -> arange_len start stop p q = Val (np_arange_len start stop p q).
Proof.
  intros Hp. unfold arange_len, np_arange_len, ceil_div. replace (p =? 0) with false by lia.
  set (num := (stop - start) * q).
  destruct (Z.leb_spec (num * p) 0) as [Hle|Hgt]; f_equal.
  - assert (0 <= - num / p) by (Z.div_mod_to_equations; nia). lia.
  - assert (- num / p < 0) by (Z.div_mod_to_equations; nia). lia.
Qed.

(* as rationals: numerator/denominator pairs compared by cross multiplication *)
Lemma linspace_elem_spec start stop num endpoint i : 1 <= num -> 0 <= i < num ->
  let m := linspace_elem start stop num endpoint i in
  let sp := np_linspace_elem start stop num endpoint i in
  snd m <> 0 /\ snd sp <> 0 /\ fst m * snd sp = fst sp * snd m.
Proof.
  intros Hn Hi. unfold linspace_elem, np_linspace_elem.
  destruct (Z.eqb_spec num 1) as [->|Hne].
  - replace (i =? 0) with true by lia. cbn. lia.
  - destruct (Z.eqb_spec i 0) as [->|Hi0]; destruct endpoint; cbn [fst snd]; repeat split; try lia; ring.
Qed.

(* ------------------------------------------------------------------------------------------ *)
(* element types of the joining views                                                          *)

Lemma round_sig_small p n : 0 < p -> Z.abs n < 2 ^ p -> round_sig p n = n.
Proof.
  intros Hp H. unfold round_sig.
  assert (Z.log2 (Z.abs n) < p).
  { destruct (Z.eq_dec (Z.abs n) 0) as [->|Hn]; [simpl; lia|]. apply Z.log2_lt_pow2; lia. }
  replace (Z.log2 (Z.abs n) + 1 - p <=? 0) with true by lia. reflexivity.
Qed.

Lemma swrap_small w z : 0 < w -> - 2 ^ (w - 1) <= z < 2 ^ (w - 1) -> swrap w z = z.
Proof.
  intros Hw H. unfold swrap. assert (E : 2 ^ w = 2 * 2 ^ (w - 1)) by (rewrite <- Z.pow_succ_r by lia; f_equal; lia).
  destruct (Z.lt_ge_cases z 0).
  - rewrite <- (Z.mod_unique z (2 ^ w) (-1) (z + 2 ^ w)) by lia.
    replace (z + 2 ^ w <? 2 ^ (w - 1)) with false by lia. lia.
  - rewrite Z.mod_small by lia. replace (z <? 2 ^ (w - 1)) with true by lia. reflexivity.
Qed.

Lemma int_copy w n : 0 < w -> n mod 4 = 0 -> - 2 ^ (w - 1) <= n / 4 < 2 ^ (w - 1) -> swrap w (Z.quot n 4) * 4 = n.
Proof.
  intros Hw Hm Hr. assert (Hq : Z.quot n 4 = n / 4).
  { pose proof (Z.div_mod n 4 ltac:(lia)). pose proof (Z.quot_rem' n 4).
    assert (Z.rem n 4 = 0) by (apply Z.rem_divide; [lia|]; apply Z.mod_divide; lia). lia. }
  rewrite Hq, swrap_small by assumption. pose proof (Z.div_mod n 4 ltac:(lia)). lia.
Qed.

(* an element of operand a survives the conversion to the view's element type exactly — under C++'s common type when it
   agrees with NumPy's result type or the value is float32-representable, under NumPy's result type always (double-exact values) *)
Lemma join_copy a b n : value_in a n -> round_sig 53 n = n ->
  (cxx_common a b = np_common a b \/ round_sig 24 n = n) ->
  conv (cxx_common a b) n = n /\ conv (np_common a b) n = n
  /\ conv (cxx_common b a) n = n /\ conv (np_common b a) n = n.
Proof.
  intros Hv H53 Hc.
  assert (Hint : forall w, 0 < w -> n mod 4 = 0 -> - 2 ^ (w - 1) <= n / 4 < 2 ^ (w - 1) -> swrap w (Z.quot n 4) * 4 = n)
    by (intros; now apply int_copy).
  assert (H24s : (n mod 4 = 0 /\ - 2 ^ 7 <= n / 4 < 2 ^ 7) -> round_sig 24 n = n).
  { intros [Hm Hr]. apply round_sig_small; [lia|]. pose proof (Z.div_mod n 4 ltac:(lia)). lia. }
  destruct a, b; cbn [cxx_common np_common is_float width Z.ltb conv value_in] in *;
    repeat match goal with |- _ /\ _ => split end;
    try assumption; try (destruct Hc as [Hc|Hc]; [discriminate Hc | assumption]);
    try (apply H24s; cbn in Hv; exact Hv);
    try (destruct Hv as [Hm Hr]; apply Hint; [lia | assumption | cbn in Hr |- *; lia]).
Qed.

(* the nearest-neighbour map is monotone in the output position, starts at 0 and (for dst <= src .. any extents) never skips
   backwards: stated on one axis in Z and position-wise on index lists, for ALL extents *)
Lemma resize_axis_props n m i j : 0 <= n -> 0 < m -> 0 <= i <= j -> j < m ->
  0 <= n * i / m <= n * j / m /\ (0 < n -> n * j / m < n) /\ n * 0 / m = 0.
Proof.
  intros Hn Hm Hij Hj. split; [|split].
  - split; [apply Z.div_pos; nia | apply Z.div_le_mono; nia].
  - intros Hn'. apply Z.div_lt_upper_bound; nia.
  - now rewrite Z.mul_0_r.
Qed.

Lemma resize_index_mono s : forall d i j, length s = length d -> pos s -> inb i d -> inb j d ->
  Forall2 Z.le i j -> Forall2 Z.le (resize_index i s d) (resize_index j s d).
Proof.
  induction s as [|n s IH]; intros [|m d] i j Hl Hp Hi Hj Hle; simpl in Hl; try lia.
  - inversion Hi; inversion Hj; subst. simpl. constructor.
  - inversion Hi; subst. inversion Hj; subst. inversion Hp; subst. inversion Hle; subst.
    cbn [resize_index]. constructor; [apply Z.div_le_mono; nia | apply IH; auto; lia].
Qed.
