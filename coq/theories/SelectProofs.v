(* SelectProofs.v — lemmas for C04: Model (Select.v) = Spec on the valid-argument domain, and the
   copy statement "a non-fill output element is the designated source element, which is in bounds".
   Every statement is for every dimension and every extent (induction on the shape lists). *)
From NM Require Import Base Index IndexProofs Select.
Local Open Scope Z_scope.

(* ------------------------------------------------------------------------------------------ *)
(* generic list facts                                                                          *)

Lemma rev_repeat' {A} (x : A) n : rev (repeat x n) = repeat x n.
Proof.
  induction n; simpl; [reflexivity|]. rewrite IHn. clear IHn.
  induction n; simpl; [reflexivity|]. now rewrite IHn.
Qed.

Lemma map2_length f a : forall b, length a = length b -> length (map2 f a b) = length a.
Proof. induction a; intros [|y b] H; simpl in *; try discriminate; auto. Qed.

Lemma map2_app f x1 : forall y1 x2 y2, length x1 = length y1 ->
  map2 f (x1 ++ x2) (y1 ++ y2) = map2 f x1 y1 ++ map2 f x2 y2.
Proof.
  induction x1 as [|x x1 IH]; intros [|y y1] x2 y2 Hl; simpl in *; try discriminate; [reflexivity|].
  now rewrite IH by lia.
Qed.

Lemma map2_rev f x : forall y, length x = length y -> map2 f (rev x) (rev y) = rev (map2 f x y).
Proof.
  induction x as [|a x IH]; intros [|b y] Hl; simpl in *; try discriminate; [reflexivity|].
  rewrite map2_app by (rewrite !rev_length; lia). now rewrite IH by lia.
Qed.

Lemma pad1_length n s : (length s <= n)%nat -> length (pad1 n s) = n.
Proof. intros. unfold pad1. rewrite app_length, repeat_length. lia. Qed.

Lemma rev_pad1 n s : rev (pad1 n s) = rev s ++ repeat 1 (n - length s).
Proof. unfold pad1. now rewrite rev_app_distr, rev_repeat'. Qed.

Lemma inb_rev' i s : inb (rev i) (rev s) -> inb i s.
Proof. intros H. apply inb_rev in H. now rewrite !rev_involutive in H. Qed.

(* ------------------------------------------------------------------------------------------ *)
(* tile                                                                                        *)

Lemma map2_mul_ones_l b : map2 Z.mul (repeat 1 (length b)) b = b.
Proof. induction b as [|y b IH]; simpl; [reflexivity|]. rewrite IH. now destruct y. Qed.
Lemma map2_mul_ones_r a : map2 Z.mul a (repeat 1 (length a)) = a.
Proof. induction a as [|x a IH]; simpl; [reflexivity|]. rewrite IH. now rewrite Z.mul_1_r. Qed.

Lemma tile_shape_rev_np a : forall b,
  tile_shape_rev a b =
  map2 Z.mul (a ++ repeat 1 (Nat.max (length a) (length b) - length a))
             (b ++ repeat 1 (Nat.max (length a) (length b) - length b)).
Proof.
  induction a as [|x a IH]; intros [|y b].
  - reflexivity.
  - cbn [tile_shape_rev length app]. rewrite Nat.max_0_l, Nat.sub_0_r, Nat.sub_diag. cbn [repeat].
    rewrite app_nil_r. symmetry. exact (map2_mul_ones_l (y :: b)).
  - cbn [tile_shape_rev length app]. rewrite Nat.max_0_r, Nat.sub_0_r, Nat.sub_diag. cbn [repeat].
    rewrite app_nil_r. symmetry. exact (map2_mul_ones_r (x :: a)).
  - cbn [tile_shape_rev length app map2]. rewrite <- Nat.succ_max_distr.
    replace (S (Nat.max (length a) (length b)) - S (length a))%nat
      with (Nat.max (length a) (length b) - length a)%nat by lia.
    replace (S (Nat.max (length a) (length b)) - S (length b))%nat
      with (Nat.max (length a) (length b) - length b)%nat by lia.
    now rewrite <- IH.
Qed.

Lemma tile_shape_spec s r : shape_tile s r = np_tile_shape s r.
Proof.
  unfold shape_tile, np_tile_shape. rewrite tile_shape_rev_np, !rev_length.
  set (n := Nat.max (length s) (length r)).
  rewrite <- !rev_pad1. rewrite map2_rev by (rewrite !pad1_length; lia).
  apply rev_involutive.
Qed.

Lemma tile_shape_length s r : length (shape_tile s r) = Nat.max (length s) (length r).
Proof.
  rewrite tile_shape_spec. unfold np_tile_shape. rewrite map2_length; rewrite !pad1_length; lia.
Qed.

(* the index map on reversed lists: s shorter or equal to i *)
Lemma tile_idx_rev_np s : forall i, (length s <= length i)%nat ->
  tile_idx_rev s i = firstn (length s) (map2 Z.modulo i (s ++ repeat 1 (length i - length s))).
Proof.
  induction s as [|a s IH]; intros [|x i] Hl; simpl in *; try lia; try reflexivity.
  rewrite IH by lia. reflexivity.
Qed.

Lemma firstn_rev_skipn {A} (l : list A) n : firstn n (rev l) = rev (skipn (length l - n) l).
Proof. rewrite firstn_rev. reflexivity. Qed.

Lemma tile_elem_spec s i : (length s <= length i)%nat -> tile_index s i = np_tile_index s i.
Proof.
  intros Hl. unfold tile_index, np_tile_index.
  rewrite tile_idx_rev_np by (rewrite !rev_length; lia). rewrite !rev_length.
  rewrite <- rev_pad1. rewrite map2_rev by (rewrite pad1_length; lia).
  rewrite firstn_rev, rev_involutive. rewrite map2_length by (rewrite pad1_length; lia). reflexivity.
Qed.

(* in bounds: 0 <= x mod a < a for positive a, position by position from the right *)
Lemma tile_idx_rev_inb s : forall i, pos s -> (length s <= length i)%nat ->
  Forall (fun x => 0 <= x) i -> inb (tile_idx_rev s i) s.
Proof.
  induction s as [|a s IH]; intros [|x i] Hp Hl Hi; simpl in *; try lia; try constructor.
  - inversion Hp; subst. apply Z.mod_pos_bound. lia.
  - inversion Hp; inversion Hi; subst. apply IH; auto; lia.
Qed.

Lemma inb_nonneg i s : inb i s -> Forall (fun x => 0 <= x) i.
Proof. induction 1; constructor; auto; lia. Qed.

Lemma tile_inb s r i : pos s -> inb i (shape_tile s r) -> inb (tile_index s i) s.
Proof.
  intros Hp Hi. pose proof (inb_length _ _ Hi) as Hl. rewrite tile_shape_length in Hl.
  unfold tile_index. apply inb_rev'. rewrite rev_involutive.
  apply (tile_idx_rev_inb (rev s) (rev i)).
  - now apply pos_rev.
  - rewrite !rev_length. lia.
  - apply Forall_rev. exact (inb_nonneg _ _ Hi).
Qed.
