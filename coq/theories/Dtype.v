(* Dtype.v — C07(c): the element type of a binary element-wise view.
   view/ufunc/detail.hpp:88-108: result type = op::result_type when the op has one (an explicitly requested
   dtype instantiates the op with res_t = that type), else decltype(op(a,b)); for the arithmetic ops
   (add, subtract, multiply, divide: `t + u` ...) that is C++'s integral promotion followed by the usual
   arithmetic conversions; comparisons yield bool.  Data model LP64 (x86-64 Linux, the platform of the
   pinned suite): int = 32 bit, long = int64_t = 64 bit.  The type set is finite, so every statement about
   it is decided by exhaustive computation. *)
From NM Require Import Base.

Inductive dtype := Bool | I8 | U8 | I16 | U16 | I32 | U32 | I64 | U64 | F32 | F64.
Definition all_dtypes : list dtype := [Bool; I8; U8; I16; U16; I32; U32; I64; U64; F32; F64].

Definition dtype_eqb (a b : dtype) : bool :=
  match a, b with
  | Bool, Bool | I8, I8 | U8, U8 | I16, I16 | U16, U16 | I32, I32 | U32, U32 | I64, I64 | U64, U64
  | F32, F32 | F64, F64 => true
  | _, _ => false
  end.

Definition is_float (a : dtype) : bool := match a with F32 | F64 => true | _ => false end.
Definition is_signed (a : dtype) : bool := match a with I8 | I16 | I32 | I64 | F32 | F64 => true | _ => false end.
Definition bits (a : dtype) : Z :=
  match a with Bool => 1 | I8 | U8 => 8 | I16 | U16 => 16 | I32 | U32 | F32 => 32 | I64 | U64 | F64 => 64 end.

(* [conv.prom]: every integer type whose values all fit in int becomes int *)
Definition int_promote (a : dtype) : dtype :=
  match a with Bool | I8 | U8 | I16 | U16 => I32 | x => x end.

(* [expr.arith.conv] on promoted operands *)
Definition promote_cxx (a b : dtype) : dtype :=
  match a, b with
  | F64, _ | _, F64 => F64
  | F32, _ | _, F32 => F32
  | _, _ =>
    let a' := int_promote a in let b' := int_promote b in
    if dtype_eqb a' b' then a'
    else if Bool.eqb (is_signed a') (is_signed b') then (if bits a' <? bits b' then b' else a')%Z
    else
      let (s, u) := if is_signed a' then (a', b') else (b', a') in
      if (bits s <=? bits u)%Z then u            (* unsigned rank >= signed rank *)
      else s                                      (* the signed type represents every value of the unsigned one *)
  end.

Inductive opkind := Arith | Compare | Pow.
(* detail.hpp:88-108 *)
Definition result_dtype (requested : option dtype) (k : opkind) (a b : dtype) : dtype :=
  match requested with
  | Some r => r
  | None => match k with
            | Arith => promote_cxx a b
            | Compare => Bool
            (* std::pow: float only for (float,float), double for every other arithmetic pair ([c.math] promotion) *)
            | Pow => match a, b with F32, F32 => F32 | _, _ => F64 end
            end
  end.

(* the reduction keeps the operand's element type unless a dtype is requested (reduce.hpp: get_result_type) *)
Definition reduce_dtype (requested : option dtype) (a : dtype) : dtype :=
  match requested with Some r => r | None => a end.

(* every argument form that selects the result element type of a binary element-wise view:
     fn(a,b), fn(a,b,casting::auto_t{})                    -> op<none,none,none>: decltype(a op b)  (C++ promotion)
     fn(a,b,casting::same_kind_t{} / equiv_t{}) (add, subtract, multiply; operand element types must be equal)
                                                           -> op<lhs_t,rhs_t,rhs_t>: static_cast<rhs_t>(a op b)
     outer_fn(a,b,dtype), reduce_fn / accumulate_fn(a,axis,dtype) -> op<none,none,res_t>: the requested dtype *)
Inductive castform := CastDefault | CastAuto | CastSameKind | CastEquiv | CastDtype (r : dtype).
Definition binary_result_dtype (form : castform) (k : opkind) (a b : dtype) : dtype :=
  match form with
  | CastDefault | CastAuto => result_dtype None k a b
  | CastSameKind | CastEquiv => b
  | CastDtype r => r
  end.

(* conversion of an (exact) integer value into a dtype: unsigned: modulo 2^bits ([conv.integral]); signed: two's complement
   (what gcc / clang do; implementation-defined before C++20); bool: != 0; floating: exact while |z| < 2^24 resp. 2^53 *)
Definition int_cast (d : dtype) (z : Z) : Z :=
  match d with
  | Bool => if (z =? 0)%Z then 0%Z else 1%Z
  | U8 | U16 | U32 | U64 => wrap (bits d) z
  | I8 | I16 | I32 | I64 => swrap (bits d) z
  | F32 | F64 => z
  end.
(* element of a binary view on integer-valued data: the exact result converted into the result element type *)
Definition typed_binary (form : castform) (op : Z -> Z -> Z) (a b : dtype) (x y : Z) : Z :=
  int_cast (binary_result_dtype form Arith a b) (op x y).

(* ---------- exhaustive facts ---------- *)
Definition forall2 (p : dtype -> dtype -> bool) : bool :=
  forallb (fun a => forallb (p a) all_dtypes) all_dtypes.

Lemma all_dtypes_complete a : In a all_dtypes.
Proof. destruct a; cbn; tauto. Qed.

Lemma forall2_spec p : forall2 p = true -> forall a b, p a b = true.
Proof.
  unfold forall2. intros H a b. rewrite forallb_forall in H.
  specialize (H a (all_dtypes_complete a)). rewrite forallb_forall in H.
  exact (H b (all_dtypes_complete b)).
Qed.

Lemma dtype_eqb_eq a b : dtype_eqb a b = true -> a = b.
Proof. destruct a, b; cbn; intros; try reflexivity; discriminate. Qed.

Lemma promote_cxx_comm a b : promote_cxx a b = promote_cxx b a.
Proof.
  apply dtype_eqb_eq. revert a b. apply forall2_spec. vm_compute. reflexivity.
Qed.

(* the result is never narrower than int, is one of the (promoted) operand types, and floating point dominates *)
Lemma promote_cxx_props a b :
  (32 <=? bits (promote_cxx a b))%Z = true
  /\ (dtype_eqb (promote_cxx a b) (int_promote a) || dtype_eqb (promote_cxx a b) (int_promote b)) = true
  /\ is_float (promote_cxx a b) = is_float a || is_float b.
Proof.
  assert (H : (fun a b => (32 <=? bits (promote_cxx a b))%Z
                 && (dtype_eqb (promote_cxx a b) (int_promote a) || dtype_eqb (promote_cxx a b) (int_promote b))
                 && Bool.eqb (is_float (promote_cxx a b)) (is_float a || is_float b)) a b = true).
  { revert a b. apply forall2_spec. vm_compute. reflexivity. }
  cbv beta in H. apply andb_prop in H as [H H3]. apply andb_prop in H as [H1 H2].
  repeat split; try assumption. now apply Bool.eqb_prop.
Qed.

Lemma promote_cxx_idem a : promote_cxx a a = int_promote a.
Proof. destruct a; reflexivity. Qed.

(* the casting forms: default / auto give the C++ promotion (never narrower than int: a narrow element type widens),
   same_kind / equiv on equal operand types KEEP the operand type (so a narrow type stays narrow and its values wrap),
   an explicit dtype is the result type *)
Lemma binary_result_dtype_forms a r :
  binary_result_dtype CastDefault Arith a a = int_promote a
  /\ binary_result_dtype CastAuto Arith a a = int_promote a
  /\ binary_result_dtype CastSameKind Arith a a = a
  /\ binary_result_dtype CastEquiv Arith a a = a
  /\ binary_result_dtype (CastDtype r) Arith a a = r
  /\ (bits a <? 32 = true -> is_float a = false -> binary_result_dtype CastDefault Arith a a = I32)%Z.
Proof.
  cbn [binary_result_dtype result_dtype]. rewrite promote_cxx_idem. repeat split.
  destruct a; cbn; intros; try reflexivity; discriminate.
Qed.

(* A scalar operand reaches the scalar operation as a VALUE of its own element type, so (array element, scalar) is an ordinary
   mixed-type pair of the table above.  (Before /repo d41ab70 the operation received the scalar as a 0-dim view and maximum /
   minimum / power / where converted it to the ARRAY's element type first: maximum(int8 [1], int32 1000) gave int8(1000) = -24.) *)
Lemma scalar_operand_is_a_value :
  typed_binary CastDefault Z.max I8 I32 1 1000 = 1000%Z
  /\ typed_binary CastDefault Z.max I8 I32 1 1000 <> typed_binary CastDefault Z.max I8 I32 1 (int_cast I8 1000).
Proof. split; [reflexivity | vm_compute; discriminate]. Qed.
