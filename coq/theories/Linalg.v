(* Linalg.v — C16.  FAITHFUL executable model of
     include/nmtools/array/view/{matmul,dot,inner,outer,vecdot,tensordot,kron,trace,diagonal}.hpp
   (the index helpers defined in those headers and the view pipelines built from
   tile / reshape / transpose / flatten / broadcasting multiply / sum), and the
   independent NumPy reference (Spec) they are compared with.

   Scalars: a Section over a type A with [zero], [add], [mul]; the laws needed
   by each theorem are hypotheses of LinalgProofs.v.  Instantiated with Z at
   extraction time (the handlers pass Z.add / Z.mul).

   An operand / a lazily evaluated view is a shape and an element function;
   a view's element function performs exactly the index arithmetic the C++
   performs before it touches the operand. *)
From NM Require Import Base Index Broadcast.
Local Open Scope Z_scope.

(* outcome of a view constructor: a view, Nothing (maybe-typed result empty), or a
   run-time failure (out-of-range access / unwrap of an empty maybe / empty reduction) *)
Inductive res (T : Type) : Type := Ok (x : T) | Nothing | Trap.
Arguments Ok {T} x. Arguments Nothing {T}. Arguments Trap {T}.

(* ---------- small list vocabulary (C++ `at(l,-k)`, loops that fill a prefix) ---------- *)
Definition ones (n : nat) : list Z := repeat 1 n.
Definition atneg (l : list Z) (k : nat) : Z := nth (length l - k) l 0.          (* at(l,-k), k >= 1 *)
Definition idseq (n : nat) : list nat := seq 0 n.
(* [0..n-1] with the last two entries exchanged when n >= 2 (dot_rhs_transpose / matmul_rhs_transpose) *)
Definition swap_last2 (n : nat) : list nat :=
  if (2 <=? n)%nat then seq 0 (n - 2) ++ [(n - 1)%nat; (n - 2)%nat] else seq 0 n.

(* ====================================================================== *)
(*  index-level helpers that do not involve the scalar type                *)
(* ====================================================================== *)

(* ---------- index::shape_matmul (matmul.hpp:29-95) ----------
   shape_1 = a[-1]; shape_2 = bdim==1 ? b[0] : b[-2]; valid = shape_1 == shape_2
   split(ashape, adim==1 ? -1 : -2), split(bshape, bdim==1 ? -1 : -2): the left parts are
   the batch shapes, broadcast with index::broadcast_shape; valid &&= has_value.
   result: adim>=2 && bdim==1 -> a[0..adim-2];  bdim>=2 && adim==1 -> b without axis bdim-2;
           otherwise the first max(adim,bdim)-2 entries of the broadcast batch shape, then
           (when both >= 2) result[-2] = a[-2], result[-1] = b[-1]; 1-d x 1-d gives []. *)
Definition batch_of (s : list Z) : list Z :=
  firstn (length s - (if (length s =? 1)%nat then 1 else 2)) s.
Definition shape_matmul (a b : list Z) : option (list Z) :=
  let adim := length a in let bdim := length b in
  let shape_1 := atneg a 1 in
  let shape_2 := if (bdim =? 1)%nat then nth 0 b 0 else atneg b 2 in
  match broadcast_shape2 (batch_of a) (batch_of b) with
  | Some bs =>
      if shape_1 =? shape_2 then
        Some (if (2 <=? adim)%nat && (bdim =? 1)%nat then firstn (adim - 1) a
              else if (2 <=? bdim)%nat && (adim =? 1)%nat then firstn (bdim - 2) b ++ skipn (bdim - 1) b
              else if (adim =? 1)%nat && (bdim =? 1)%nat then []
              else firstn (Nat.max adim bdim - 2) bs ++ [atneg a 2; atneg b 1])
      else None
  | None => None
  end.

(* ---------- index::matmul (matmul.hpp:116-194): the two slice specifications ----------
   l_slices[i] (i < ldim-2) = lshape[i]==1 ? 0 : indices[i + (len(shape) - ldim)];
   l_slices[-2] = indices[-2]; l_slices[-1] = all
   r_slices likewise with r_slices[-2] = all; r_slices[-1] = indices[-1].
   apply_slice then yields the 1-d row a[l.., row, :] and column b[r.., :, col]. *)
Definition fill_non_matmul (src_shape idx : list Z) (mdim : nat) : list Z :=
  map (fun i => if nth i src_shape 0 =? 1 then 0 else nth (i + (mdim - length src_shape)) idx 0)
      (seq 0 (length src_shape - 2)).
Definition matmul_lidx (lshape idx : list Z) (k : Z) : list Z :=
  fill_non_matmul lshape idx (length idx) ++ [atneg idx 2; k].
Definition matmul_ridx (rshape idx : list Z) (k : Z) : list Z :=
  fill_non_matmul rshape idx (length idx) ++ [k; atneg idx 1].

(* ---------- index::shape_reshape (reshape.hpp:46-168; -1 allowed once) ---------- *)
Definition reshape_numel (dst : list Z) : Z :=             (* count_negative_reshape: product of the non -1 entries, 0 for an empty list *)
  match dst with [] => 0 | _ => fold_left (fun acc d => if d =? -1 then acc else acc * d) dst 1 end.
Definition shape_reshape (src dst : list Z) : option (list Z) :=
  let m1 := length (filter (fun d => d =? -1) dst) in
  let dn := reshape_numel dst in
  let sn := product src in
  if (1 <? m1)%nat then None
  else if existsb (fun d => negb (d =? -1) && (d <? 1)) dst then None
  else if dn =? 0 then None
  else if (m1 =? 0)%nat && negb (sn =? dn) then None
  else if negb (sn mod dn =? 0) then None
  else Some (map (fun d => if d =? -1 then sn / dn else d) dst).
(* reshape_t::indices (view/reshape.hpp:67): compute_indices(compute_offset(i, strides(dst)), src) *)
Definition reshape_idx (src dst i : list Z) : list Z :=
  compute_indices (compute_offset i (compute_strides dst)) src.

(* ---------- index::shape_tile / index::tile (index/tile.hpp), right aligned ---------- *)
Fixpoint tile_shape_rev (s r : list Z) : list Z :=
  match s, r with
  | [], _ => r
  | _, [] => s
  | x :: s', y :: r' => x * y :: tile_shape_rev s' r'
  end.
Definition shape_tile (s reps : list Z) : list Z := rev (tile_shape_rev (rev s) (rev reps)).
Fixpoint tile_idx_rev (s i : list Z) : list Z :=            (* ret[ai] = indices[bi] % shape[ai] *)
  match s, i with
  | x :: s', k :: i' => (k mod x) :: tile_idx_rev s' i'
  | _, _ => []
  end.
Definition tile_idx (s i : list Z) : list Z := rev (tile_idx_rev (rev s) (rev i)).

(* ---------- transpose with explicit axes: shape = gather(shape,axes); src index = scatter(i,axes) ---------- *)
Definition shape_transpose (s : list Z) (axes : list nat) : list Z := map (fun ax => nth ax s 0) axes.
Definition scatter (vec : list Z) (axes : list nat) : list Z :=
  fold_left (fun ret p => upd ret (snd p) (fst p)) (combine vec axes) (repeat 0 (length vec)).

(* ---------- dot.hpp helpers ---------- *)
(* dot_lhs_tile: ones(ldim), last = rhs[-1] when rdim > 1 *)
Definition dot_lhs_tile (ls rs : list Z) : list Z :=
  if (1 <? length rs)%nat then ones (length ls - 1) ++ [atneg rs 1] else ones (length ls).
(* dot_lhs_reshape: dst_dim = max(ldim+rdim-2, ldim) (+1 when rdim>1); ones; the first ldim-1 entries
   from lhs; rdim>1: [-2] = rhs[-1], [-1] = rhs[-2]; else [-1] = rhs[-1] *)
Definition dot_lhs_reshape (ls rs : list Z) : list Z :=
  let ldim := length ls in let rdim := length rs in
  let d := Nat.max (ldim + rdim - 2) ldim in
  if (1 <? rdim)%nat then firstn (ldim - 1) ls ++ ones (d + 1 - (ldim - 1) - 2) ++ [atneg rs 1; atneg rs 2]
  else firstn (ldim - 1) ls ++ ones (d - (ldim - 1) - 1) ++ [atneg rs 1].

(* ---------- inner.hpp: inner_lhs_reshape: dst_dim = max(ldim+rdim-1, ldim); ones; prefix ldim-1 from lhs; [-1] = lhs[-1] *)
Definition inner_lhs_reshape (ls rs : list Z) : list Z :=
  let ldim := length ls in let rdim := length rs in
  let d := Nat.max (ldim + rdim - 1) ldim in
  firstn (ldim - 1) ls ++ ones (d - (ldim - 1) - 1) ++ [atneg ls 1].

(* ---------- matmul.hpp second half (matmulv2) ---------- *)
Definition matmul_lhs_tile (ls rs : list Z) : list Z :=
  if (2 <=? length ls)%nat && (2 <=? length rs)%nat then ones (length ls - 1) ++ [atneg rs 1] else ones (length ls).
(* matmul_lhs_reshape: both >= 2-d: lhs ++ [1], then [-1] = rhs[-1], then exchange [-1] and [-2]; else lhs *)
Definition matmul_lhs_reshape (ls rs : list Z) : list Z :=
  if (2 <=? length ls)%nat && (2 <=? length rs)%nat
  then firstn (length ls - 1) ls ++ [atneg rs 1; atneg ls 1] else ls.
(* matmul_rhs_reshape(ashape', bshape') on the transformed operands: both >= 2-d: b'[0..rdim-3] ++ [1] ++ b'[-2..]; else b' *)
Definition matmul_rhs_reshape (ls rs : list Z) : list Z :=
  if (2 <=? length ls)%nat && (2 <=? length rs)%nat
  then firstn (length rs - 2) rs ++ [1] ++ skipn (length rs - 2) rs else rs.

(* ---------- tensordot.hpp helpers ---------- *)
(* normalize_axis on a list (negative axes count from the back); None = Nothing *)
Definition norm_axis (n : nat) (ax : Z) : option nat :=
  if (ax <? - Z.of_nat n) || (Z.of_nat n <=? ax) then None
  else Some (Z.to_nat (if ax <? 0 then ax + Z.of_nat n else ax)).
Definition norm_axes (n : nat) (axes : list Z) : option (list nat) := sequence (map (norm_axis n) axes).
Definition containsb (l : list nat) (x : nat) : bool := existsb (Nat.eqb x) l.
(* tensordot_{lhs,rhs}_transpose with a list of axes: the axes not listed (ascending) then the listed ones in the given order *)
Definition tdot_transpose (dim : nat) (axes : list nat) : list nat :=
  filter (fun i => negb (containsb axes i)) (seq 0 dim) ++ axes.
(* integer axes n: lhs keeps the identity, rhs uses range(0,n) as its axes *)
(* tensordot_lhs_reshape(shape(a'), rhs_shape, sum_axis): dst_dim = ldim + rdim - n;
   first ldim-n entries of a', ones, last n entries of a' *)
Definition tdot_lhs_reshape (ls rs : list Z) (n : nat) : list Z :=
  let ldim := length ls in let rdim := length rs in
  firstn (ldim - n) ls ++ ones (ldim + rdim - n - ldim) ++ skipn (ldim - n) ls.

(* ---------- kron.hpp helpers ---------- *)
Definition kron_lhs_reshape (ls : list Z) (rdim : nat) : list Z := ls ++ ones rdim.
Fixpoint swaps (l : list nat) (ps : list nat) : list nat :=    (* exchange positions p and p-1, for p in ps, in order *)
  match ps with
  | [] => l
  | p :: t => swaps (upd (upd l p (nth (p - 1) l O)) (p - 1) (nth p l O)) t
  end.
(* kron_dst_transpose(ldim, rdim), recursive in |ldim - rdim| (fuel = that difference):
     equal:   result[2i] = i, result[2i+1] = i + dim
     l < r:   first dst_dim-1 entries from kron_dst_transpose(l, r-1), last entry dst_dim-1,
              then for i < ldim exchange positions (dst_dim - 2(i+1)) and (dst_dim - 2(i+1) - 1)
     l > r:   kron_dst_transpose(l, r+1) (first dst_dim entries), then for i < rdim exchange positions
              (dst_dim - (2i+1)) and (dst_dim - (2i+1) - 1) *)
Fixpoint kron_dst_transpose_f (fuel ldim rdim : nat) : list nat :=
  let dst := (ldim + rdim)%nat in
  if (ldim =? rdim)%nat then flat_map (fun i => [i; (i + dst / 2)%nat]) (seq 0 (dst / 2))
  else match fuel with
  | O => seq 0 dst
  | S f =>
    if (ldim <? rdim)%nat then
      let init := kron_dst_transpose_f f ldim (rdim - 1) in
      swaps (firstn (dst - 1) init ++ [(dst - 1)%nat]) (map (fun i => (dst - 2 * (i + 1))%nat) (seq 0 ldim))
    else
      let init := kron_dst_transpose_f f ldim (rdim + 1) in
      swaps (firstn dst init) (map (fun i => (dst - (2 * i + 1))%nat) (seq 0 rdim))
  end.
Definition kron_dst_transpose (ldim rdim : nat) : list nat :=
  kron_dst_transpose_f (Nat.max ldim rdim) ldim rdim.
(* kron_dst_reshape: right aligned; both present: product; else whichever exists *)
Definition kron_dst_reshape (ls rs : list Z) : list Z := shape_tile ls rs.

(* ---------- diagonal.hpp ---------- *)
(* shape_diagonal: the extents of the other axes in order, then
   src_i = min( offset<0 ? n1+offset : n1 , offset>0 ? n2-offset : n2 );  src_i = src_i < 0 ? 0 : src_i *)
Definition remove_axes (s : list Z) (a1 a2 : nat) : list Z :=
  map (fun i => nth i s 0) (filter (fun i => negb ((i =? a1)%nat || (i =? a2)%nat)) (seq 0 (length s))).
Definition diag_extent (s : list Z) (off : Z) (a1 a2 : nat) : Z :=
  let n1 := nth a1 s 0 in let n2 := nth a2 s 0 in
  let e := Z.min (if off <? 0 then n1 + off else n1) (if 0 <? off then n2 - off else n2) in
  if e <? 0 then 0 else e.
Definition shape_diagonal (s : list Z) (off : Z) (a1 a2 : nat) : list Z :=
  remove_axes s a1 a2 ++ [diag_extent s off a1 a2].
(* index::diagonal: the leading coordinates of i fill the other axes in order;
   result[axis1] = i[-1] + (offset < 0 ? -offset : 0); result[axis2] = i[-1] + (offset > 0 ? offset : 0) *)
Fixpoint diag_fill (axes : list nat) (a1 a2 : nat) (i : list Z) (d : Z) (off : Z) : list Z :=
  match axes with
  | [] => []
  | ax :: t =>
      if (ax =? a2)%nat then (d + (if 0 <? off then off else 0)) :: diag_fill t a1 a2 i d off
      else if (ax =? a1)%nat then (d + (if off <? 0 then - off else 0)) :: diag_fill t a1 a2 i d off
      else match i with
           | x :: i' => x :: diag_fill t a1 a2 i' d off
           | [] => 0 :: diag_fill t a1 a2 [] d off
           end
  end.
Definition diagonal_idx (s : list Z) (i : list Z) (off : Z) (a1 a2 : nat) : list Z :=
  diag_fill (seq 0 (length s)) a1 a2 (removelast i) (last i 0) off.

(* ====================================================================== *)
(*  Spec-side index vocabulary (independent of the helpers above)          *)
(* ====================================================================== *)

(* split a list into (all but the last two, second to last, last) *)
Fixpoint split_last2 (l : list Z) : option (list Z * Z * Z) :=
  match l with
  | [] | [_] => None
  | [x; y] => Some ([], x, y)
  | h :: t => match split_last2 t with Some (p, x, y) => Some (h :: p, x, y) | None => None end
  end.
Fixpoint split_last1 (l : list Z) : option (list Z * Z) :=
  match l with
  | [] => None
  | [x] => Some ([], x)
  | h :: t => match split_last1 t with Some (p, x) => Some (h :: p, x) | None => None end
  end.

(* NumPy matmul: a 1-d first operand is promoted by prepending a 1, a 1-d second operand by appending a 1;
   the batch shapes broadcast; the inner extents must agree; the added axes are removed from the result *)
Definition np_matmul_shape (a b : list Z) : option (list Z) :=
  let a1 := (length a =? 1)%nat in let b1 := (length b =? 1)%nat in
  let a' := if a1 then 1 :: a else a in
  let b' := if b1 then b ++ [1] else b in
  match split_last2 a', split_last2 b' with
  | Some (ba, n, k), Some (bb, k', m) =>
      if k =? k' then
        match np_broadcast2 ba bb with
        | Some bs => Some (bs ++ (if a1 then [] else [n]) ++ (if b1 then [] else [m]))
        | None => None
        end
      else None
  | _, _ => None
  end.

(* dot: last axis of a with the second to last of b (the only axis of a 1-d b) *)
Definition np_dot_shape (a b : list Z) : option (list Z) :=
  match split_last1 a with
  | None => None
  | Some (pa, k) =>
      match b with
      | [] => None
      | [k'] => if k =? k' then Some pa else None
      | _ => match split_last2 b with
             | Some (pb, k', n) => if k =? k' then Some (pa ++ pb ++ [n]) else None
             | None => None
             end
      end
  end.
Definition np_inner_shape (a b : list Z) : option (list Z) :=
  match split_last1 a, split_last1 b with
  | Some (pa, k), Some (pb, k') => if k =? k' then Some (pa ++ pb) else None
  | _, _ => None
  end.
Definition np_outer_shape (a b : list Z) : list Z := [prod a; prod b].
Definition np_vecdot_shape (a b : list Z) : option (list Z) :=
  match split_last1 a, split_last1 b with
  | Some (pa, k), Some (pb, k') => if k =? k' then np_broadcast2 pa pb else None
  | _, _ => None
  end.

(* tensordot with explicit (normalised) axes lists of equal length *)
Definition free_axes_of (dim : nat) (axes : list nat) : list nat :=
  filter (fun i => negb (existsb (Nat.eqb i) axes)) (seq 0 dim).
Definition extents_at (s : list Z) (axes : list nat) : list Z := map (fun ax => nth ax s 0) axes.
Fixpoint nodupb (l : list nat) : bool :=
  match l with [] => true | x :: t => negb (existsb (Nat.eqb x) t) && nodupb t end.
Definition np_tensordot_shape (a b : list Z) (axa axb : list nat) : option (list Z) :=
  if (length axa =? length axb)%nat && nodupb axa && nodupb axb
     && forallb (fun ax => (ax <? length a)%nat) axa && forallb (fun ax => (ax <? length b)%nat) axb
     && forallb (fun p => fst p =? snd p) (combine (extents_at a axa) (extents_at b axb))
  then Some (extents_at a (free_axes_of (length a) axa) ++ extents_at b (free_axes_of (length b) axb))
  else None.
(* the full operand index whose free axes (ascending) carry the coordinates [fr] and whose contracted axis
   axes[p] carries j[p] *)
Fixpoint index_of (x : nat) (l : list nat) : option nat :=
  match l with [] => None | y :: t => if (x =? y)%nat then Some O else option_map S (index_of x t) end.
Fixpoint place_from (axes_all : list nat) (axes : list nat) (fr j : list Z) : list Z :=
  match axes_all with
  | [] => []
  | t :: rest =>
      match index_of t axes with
      | Some p => nth p j 0 :: place_from rest axes fr j
      | None => match fr with x :: fr' => x :: place_from rest axes fr' j | [] => 0 :: place_from rest axes [] j end
      end
  end.
Definition place (dim : nat) (axes : list nat) (fr j : list Z) : list Z := place_from (seq 0 dim) axes fr j.

(* kron: pad the shorter shape with leading ones; extents multiply; element i = a[i div sb] * b[i mod sb] per axis *)
Definition np_kron_shape (a b : list Z) : list Z :=
  let n := Nat.max (length a) (length b) in
  map (fun p => fst p * snd p) (combine (pad_to n a) (pad_to n b)).
Definition np_kron_aidx (a b : list Z) (i : list Z) : list Z :=
  let n := Nat.max (length a) (length b) in
  skipn (n - length a) (map (fun p => fst p / snd p) (combine i (pad_to n b))).
Definition np_kron_bidx (a b : list Z) (i : list Z) : list Z :=
  let n := Nat.max (length a) (length b) in
  skipn (n - length b) (map (fun p => fst p mod snd p) (combine i (pad_to n b))).

(* diagonal / trace *)
Definition np_diag_len (s : list Z) (off : Z) (a1 a2 : nat) : Z :=
  let n1 := nth a1 s 0 in let n2 := nth a2 s 0 in
  Z.max 0 (if 0 <=? off then Z.min n1 (n2 - off) else Z.min (n1 + off) n2).
Definition np_diagonal_shape (s : list Z) (off : Z) (a1 a2 : nat) : option (list Z) :=
  if (a1 <? length s)%nat && (a2 <? length s)%nat && negb (a1 =? a2)%nat
  then Some (extents_at s (free_axes_of (length s) [a1; a2]) ++ [np_diag_len s off a1 a2]) else None.
(* element (rest.., d) of the diagonal is a[...] with coordinate d + max(0,-off) on axis1 and d + max(0,off) on axis2 *)
Definition np_diagonal_idx (s : list Z) (rest : list Z) (d off : Z) (a1 a2 : nat) : list Z :=
  place (length s) [a1; a2] rest [d + Z.max 0 (- off); d + Z.max 0 off].

(* ====================================================================== *)
Section Scalars.
Variable A : Type.
Variable zero : A.
Variables add mul : A -> A -> A.

Record view : Type := View { vshape : list Z; vat : list Z -> A }.

(* reducer_t::operator() without initial (reduce.hpp:191-195): initial = at(flat,0); for i = 1..: initial = op(initial, at(flat,i)).
   (an empty operand reads flat[0] out of range: the callers guard this and report Trap) *)
Definition fold1 (l : list A) : A :=
  match l with [] => zero | x :: t => fold_left add t x end.
(* the mathematical sum used by the Spec *)
Definition sigma (l : list A) : A := fold_right add zero l.

(* ---------- view combinators (the pieces the headers compose) ---------- *)
Definition v_reshape (v : view) (dst : list Z) : option view :=
  match shape_reshape (vshape v) dst with
  | Some d => Some (View d (fun i => vat v (reshape_idx (vshape v) d i)))
  | None => None
  end.
Definition v_flatten (v : view) : option view := v_reshape v [product (vshape v)].
Definition v_tile (v : view) (reps : list Z) : view :=
  View (shape_tile (vshape v) reps) (fun i => vat v (tile_idx (vshape v) i)).
Definition v_transpose (v : view) (axes : list nat) : view :=
  View (shape_transpose (vshape v) axes) (fun i => vat v (scatter i axes)).
(* binary ufunc: broadcast_arrays to the common shape, then element-wise *)
Definition v_mul (a b : view) : option view :=
  match broadcast_shape2 (vshape a) (vshape b) with
  | Some s =>
      match broadcast_to_view (vshape a) s, broadcast_to_view (vshape b) s with
      | Some (_, fa), Some (_, fb) => Some (View s (fun i => mul (vat a (fa i)) (vat b (fb i))))
      | _, _ => None
      end
  | None => None
  end.
(* view::sum over the last n axes (axis = -1, or (-1,..,-n)), keepdims = false: the operand is sliced at the kept
   coordinates, the slice flattened in C order and folded from its first element *)
Definition v_sum_last (n : nat) (v : view) : view :=
  let d := (length (vshape v) - n)%nat in
  View (firstn d (vshape v))
       (fun i => fold1 (map (fun j => vat v (i ++ j)) (lex_enum (skipn d (vshape v))))).
Definition lift (o : option view) : res view := match o with Some v => Ok v | None => Nothing end.
Definition rbind {T U} (r : res T) (f : T -> res U) : res U :=
  match r with Ok x => f x | Nothing => Nothing | Trap => Trap end.

(* ---------- view::matmul (matmul_t, matmul.hpp:356-442) ----------
   shape_ = unwrap(shape_matmul(..)) (an empty maybe is unwrapped: Trap); element: row slice x column slice,
   multiply (broadcast of two 1-d views of equal length), reduce_add(axis=None).  With a 1-d operand
   at(l_slices,-2) / at(r_slices,-2) addresses position -1 of a length-1 list (run-time shaped operands): Trap. *)
Definition matmul_elem (sa sb : list Z) (fa fb : list Z -> A) (idx : list Z) : A :=
  fold1 (map (fun k => mul (fa (matmul_lidx sa idx k)) (fb (matmul_ridx sb idx k))) (zrange (atneg sa 1))).
Definition matmul_v1 (sa sb : list Z) (fa fb : list Z -> A) : res view :=
  match shape_matmul sa sb with
  | None => Trap
  | Some s =>
      if (length sa <? 2)%nat || (length sb <? 2)%nat then Trap
      else Ok (View s (matmul_elem sa sb fa fb))
  end.

(* ---------- view::matmulv2 (matmul.hpp:945-988) ---------- *)
Definition matmul_v2 (sa sb : list Z) (fa fb : list Z -> A) : res view :=
  let reps := matmul_lhs_tile sa sb in
  let axes := swap_last2 (length sb) in
  let tf_lhs_shape := matmul_lhs_reshape sa sb in
  rbind (lift (v_reshape (v_tile (View sa fa) reps) tf_lhs_shape)) (fun a =>
  let b := v_transpose (View sb fb) axes in
  let tf_rhs_shape := matmul_rhs_reshape (vshape a) (vshape b) in
  rbind (lift (v_reshape b tf_rhs_shape)) (fun c =>
  rbind (lift (v_mul a c)) (fun m => Ok (v_sum_last 1 m)))).

(* ---------- view::dot ---------- *)
Definition dot (sa sb : list Z) (fa fb : list Z -> A) : res view :=
  let reps := dot_lhs_tile sa sb in
  let dst := dot_lhs_reshape sa sb in
  let axes := swap_last2 (length sb) in
  rbind (lift (v_reshape (v_tile (View sa fa) reps) dst)) (fun tf_lhs =>
  rbind (lift (v_mul tf_lhs (v_transpose (View sb fb) axes))) (fun m => Ok (v_sum_last 1 m))).

(* ---------- view::inner ---------- *)
Definition inner (sa sb : list Z) (fa fb : list Z -> A) : res view :=
  rbind (lift (v_reshape (View sa fa) (inner_lhs_reshape sa sb))) (fun l =>
  rbind (lift (v_mul l (View sb fb))) (fun m => Ok (v_sum_last 1 m))).

(* ---------- view::outer: reshape(flatten(a), (-1,1)) * flatten(b) ---------- *)
Definition outer (sa sb : list Z) (fa fb : list Z -> A) : res view :=
  rbind (lift (v_flatten (View sa fa))) (fun l =>
  rbind (lift (v_flatten (View sb fb))) (fun r =>
  rbind (lift (v_reshape l [-1; 1])) (fun l2 => lift (v_mul l2 r)))).

(* ---------- view::vecdot ---------- *)
Definition vecdot (sa sb : list Z) (fa fb : list Z -> A) : res view :=
  rbind (lift (v_mul (View sa fa) (View sb fb))) (fun m => Ok (v_sum_last 1 m)).

(* ---------- view::tensordot ---------- *)
Definition tensordot_gen (sa sb : list Z) (fa fb : list Z -> A) (lt rt : list nat) (n : nat) : res view :=
  let a := v_transpose (View sa fa) lt in
  rbind (lift (v_reshape a (tdot_lhs_reshape (vshape a) sb n))) (fun b =>
  let c := v_transpose (View sb fb) rt in
  rbind (lift (v_mul b c)) (fun d => Ok (v_sum_last n d))).
(* integer axes: lhs untouched, rhs moves its first n axes to the back *)
Definition tensordot_int (sa sb : list Z) (fa fb : list Z -> A) (n : nat) : res view :=
  tensordot_gen sa sb fa fb (seq 0 (length sa)) (tdot_transpose (length sb) (seq 0 n)) n.
(* explicit axes: normalize_axis is unwrapped (an axis out of range: Trap) *)
Definition tensordot_axes (sa sb : list Z) (fa fb : list Z -> A) (axa axb : list Z) : res view :=
  match norm_axes (length sa) axa, norm_axes (length sb) axb with
  | Some la, Some lb =>
      tensordot_gen sa sb fa fb (tdot_transpose (length sa) la) (tdot_transpose (length sb) lb) (length la)
  | _, _ => Trap
  end.

(* ---------- view::kron ---------- *)
Definition kron (sa sb : list Z) (fa fb : list Z -> A) : res view :=
  rbind (lift (v_reshape (View sa fa) (kron_lhs_reshape sa (length sb)))) (fun a =>
  let b := v_tile a sb in
  rbind (lift (v_mul b (View sb fb))) (fun c =>
  let d := v_transpose c (kron_dst_transpose (length sa) (length sb)) in
  lift (v_reshape d (kron_dst_reshape sa sb)))).

(* ---------- view::diagonal / view::trace ----------
   axis1/axis2 are normalised with unwrap(normalize_axis) (out of range: Trap).  (After the repair
   fixes/C16_diagonal_offset.diff: either sign of the offset, length clamped at 0.) *)
Definition diagonal (s : list Z) (f : list Z -> A) (off ax1 ax2 : Z) : res view :=
  match norm_axis (length s) ax1, norm_axis (length s) ax2 with
  | Some a1, Some a2 =>
      if (length s <? 2)%nat || (a1 =? a2)%nat then Trap
      else Ok (View (shape_diagonal s off a1 a2) (fun i => f (diagonal_idx s i off a1 a2)))
  | _, _ => Trap
  end.
Definition trace (s : list Z) (f : list Z -> A) (off ax1 ax2 : Z) : res view :=
  rbind (diagonal s f off ax1 ax2) (fun d =>
    if atneg (vshape d) 1 <=? 0 then Trap         (* reduction of an empty slice reads flat[0] *)
    else Ok (v_sum_last 1 d)).

(* ====================================================================== *)
(*  Spec: the defining sums                                                 *)
(* ====================================================================== *)

(* matmul, both operands at least 2-d: i = bi ++ [r; c] *)
Definition np_matmul_elem (sa sb : list Z) (fa fb : list Z -> A) (i : list Z) : A :=
  match split_last2 sa, split_last2 sb, split_last2 i with
  | Some (ba, _, k), Some (bb, _, _), Some (bi, r, c) =>
      sigma (map (fun kk => mul (fa (np_broadcast_to_idx ba bi ++ [r; kk]))
                                (fb (np_broadcast_to_idx bb bi ++ [kk; c]))) (zrange k))
  | _, _, _ => zero
  end.
(* general rank through NumPy's promotion rule *)
Definition np_matmul (sa sb : list Z) (fa fb : list Z -> A) : option view :=
  match np_matmul_shape sa sb with
  | None => None
  | Some s =>
      let a1 := (length sa =? 1)%nat in let b1 := (length sb =? 1)%nat in
      let sa' := if a1 then 1 :: sa else sa in
      let sb' := if b1 then sb ++ [1] else sb in
      let fa' := if a1 then (fun i => fa (tl i)) else fa in
      let fb' := if b1 then (fun i => fb (removelast i)) else fb in
      Some (View s (fun i =>
        (* re-insert the removed unit axes into the result index *)
        let i1 := if b1 then i ++ [0] else i in
        let i2 := if a1 then firstn (length i1 - 1) i1 ++ [0] ++ skipn (length i1 - 1) i1 else i1 in
        np_matmul_elem sa' sb' fa' fb' i2))
  end.

Definition np_dot (sa sb : list Z) (fa fb : list Z -> A) : option view :=
  match np_dot_shape sa sb with
  | None => None
  | Some s =>
      let k := atneg sa 1 in
      let la := (length sa - 1)%nat in
      Some (View s (fun i =>
        let ia := firstn la i in let r := skipn la i in
        sigma (map (fun kk =>
          mul (fa (ia ++ [kk]))
              (fb (match sb with
                   | [_] => [kk]
                   | _ => firstn (length r - 1) r ++ [kk] ++ skipn (length r - 1) r
                   end))) (zrange k))))
  end.
Definition np_inner (sa sb : list Z) (fa fb : list Z -> A) : option view :=
  match np_inner_shape sa sb with
  | None => None
  | Some s =>
      let la := (length sa - 1)%nat in
      Some (View s (fun i =>
        sigma (map (fun kk => mul (fa (firstn la i ++ [kk])) (fb (skipn la i ++ [kk]))) (zrange (atneg sa 1)))))
  end.
(* the p-th element in C order *)
Definition flat_at (s : list Z) (f : list Z -> A) (p : Z) : A := f (nth (Z.to_nat p) (lex_enum s) []).
Definition np_outer (sa sb : list Z) (fa fb : list Z -> A) : view :=
  View (np_outer_shape sa sb) (fun i => mul (flat_at sa fa (nth 0 i 0)) (flat_at sb fb (nth 1 i 0))).
Definition np_vecdot (sa sb : list Z) (fa fb : list Z -> A) : option view :=
  match np_vecdot_shape sa sb with
  | None => None
  | Some s =>
      Some (View s (fun i =>
        sigma (map (fun kk => mul (fa (np_broadcast_to_idx (removelast sa) i ++ [kk]))
                                  (fb (np_broadcast_to_idx (removelast sb) i ++ [kk]))) (zrange (atneg sa 1)))))
  end.
Definition np_tensordot (sa sb : list Z) (fa fb : list Z -> A) (axa axb : list nat) : option view :=
  match np_tensordot_shape sa sb axa axb with
  | None => None
  | Some s =>
      let nfa := (length sa - length axa)%nat in
      Some (View s (fun i =>
        sigma (map (fun j => mul (fa (place (length sa) axa (firstn nfa i) j))
                                 (fb (place (length sb) axb (skipn nfa i) j)))
                   (lex_enum (extents_at sa axa)))))
  end.
Definition np_kron (sa sb : list Z) (fa fb : list Z -> A) : view :=
  View (np_kron_shape sa sb) (fun i => mul (fa (np_kron_aidx sa sb i)) (fb (np_kron_bidx sa sb i))).
Definition np_diagonal (s : list Z) (f : list Z -> A) (off : Z) (a1 a2 : nat) : option view :=
  match np_diagonal_shape s off a1 a2 with
  | None => None
  | Some d => Some (View d (fun i => f (np_diagonal_idx s (removelast i) (last i 0) off a1 a2)))
  end.
Definition np_trace (s : list Z) (f : list Z -> A) (off : Z) (a1 a2 : nat) : option view :=
  match np_diagonal_shape s off a1 a2 with
  | None => None
  | Some d =>
      Some (View (removelast d) (fun i =>
        sigma (map (fun k => f (np_diagonal_idx s i k off a1 a2)) (zrange (np_diag_len s off a1 a2)))))
  end.

End Scalars.

Arguments View {A} _ _.
Arguments vshape {A} _.
Arguments vat {A} _ _.

(* ---------- API defaults (arguments omitted by the caller) ----------
   Model: the default template arguments of the headers — view::trace / view::diagonal / array::trace / array::diagonal:
   offset_t = ct<0>, axis1_t = ct<0>, axis2_t = ct<1>; view::tensordot / array::tensordot: axes_t = ct<2>. *)
Definition default_offset : Z := 0.
Definition default_axis1 : Z := 0.
Definition default_axis2 : Z := 1.
Definition default_tensordot_axes : nat := 2.
(* Spec: NumPy's documented signatures numpy.trace(a, offset=0, axis1=0, axis2=1), numpy.diagonal(a, offset=0, axis1=0,
   axis2=1), numpy.tensordot(a, b, axes=2) *)
Definition np_default_offset : Z := 0.
Definition np_default_axis1 : Z := 0.
Definition np_default_axis2 : Z := 1.
Definition np_default_tensordot_axes : nat := 2.

(* ---------- the integer instance run by the correspondence ---------- *)
Definition z_matmul_v1 := matmul_v1 Z 0 Z.add Z.mul.
Definition z_matmul_v2 := matmul_v2 Z 0 Z.add Z.mul.
Definition z_dot := dot Z 0 Z.add Z.mul.
Definition z_inner := inner Z 0 Z.add Z.mul.
Definition z_outer := outer Z Z.mul.
Definition z_vecdot := vecdot Z 0 Z.add Z.mul.
Definition z_tensordot_int := tensordot_int Z 0 Z.add Z.mul.
Definition z_tensordot_axes := tensordot_axes Z 0 Z.add Z.mul.
Definition z_kron := kron Z Z.mul.
Definition z_diagonal := diagonal Z.
Definition z_trace := trace Z 0 Z.add.
Definition z_np_matmul := np_matmul Z 0 Z.add Z.mul.
Definition z_np_dot := np_dot Z 0 Z.add Z.mul.
Definition z_np_inner := np_inner Z 0 Z.add Z.mul.
Definition z_np_outer := np_outer Z Z.mul.
Definition z_np_vecdot := np_vecdot Z 0 Z.add Z.mul.
Definition z_np_tensordot := np_tensordot Z 0 Z.add Z.mul.
Definition z_np_kron := np_kron Z Z.mul.
Definition z_np_diagonal := np_diagonal Z.
Definition z_np_trace := np_trace Z 0 Z.add.
