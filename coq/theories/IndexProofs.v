(* IndexProofs.v — lemmas about Index.v for arbitrary dimension and extents. *)
From Coq Require Import FinFun.
From NM Require Import Base Index.
Local Open Scope Z_scope.

(* ---------- the loops compute the mathematical objects ---------- *)

Lemma fold_mul_acc l : forall a, fold_left Z.mul l a = a * prod l.
Proof. induction l as [|x l IH]; intros a; simpl; [ring | rewrite IH; ring]. Qed.

Lemma product_eq_prod s : product s = prod s.
Proof. unfold product. rewrite fold_mul_acc. ring. Qed.

Lemma stride_eq s k : stride s k = prod (skipn (S k) s).
Proof. unfold stride. rewrite fold_mul_acc. ring. Qed.

Lemma map_seq_shift {A} (f : nat -> A) n : map f (seq 1 n) = map (fun k => f (S k)) (seq 0 n).
Proof. rewrite <- seq_shift, map_map. reflexivity. Qed.

Lemma compute_strides_eq s : compute_strides s = strides s.
Proof.
  unfold compute_strides. induction s as [|n t IH]; [reflexivity|].
  cbn [length seq map strides]. f_equal.
  - rewrite stride_eq. reflexivity.
  - rewrite map_seq_shift. rewrite <- IH. apply map_ext. intros k.
    rewrite !stride_eq. reflexivity.
Qed.

Fixpoint off (idx st : list Z) : Z :=
  match idx, st with i :: is, k :: ks => k * i + off is ks | _, _ => 0 end.

Lemma fold_off_acc idx : forall st a,
  fold_left (fun acc p => acc + snd p * fst p) (combine idx st) a = a + off idx st.
Proof.
  induction idx as [|i idx IH]; intros [|k st] a; simpl; try lia.
  rewrite IH. lia.
Qed.

Lemma compute_offset_eq idx st : compute_offset idx st = off idx st.
Proof. unfold compute_offset. rewrite fold_off_acc. lia. Qed.

Lemma strides_length s : length (strides s) = length s.
Proof. induction s; simpl; congruence. Qed.

(* ---------- bounds ---------- *)

Lemma off_bound idx s : inb idx s -> 0 <= off idx (strides s) < prod s.
Proof. induction 1 as [|i n is s Hi H IH]; simpl; [lia|]. nia. Qed.

Lemma unrav_inb_gen k s : pos s -> forall st, length st = length s ->
  Forall (fun t => t <> 0) st -> inb (compute_indices3 k s st) s.
Proof.
  induction 1 as [|n s Hn Hp IH]; intros [|t st] Hl Hnz; simpl in *; try discriminate.
  - constructor.
  - constructor.
    + apply Z.mod_pos_bound. lia.
    + apply IH; [lia | now inversion Hnz].
Qed.

Lemma strides_nonzero s : pos s -> Forall (fun t => t <> 0) (strides s).
Proof.
  induction 1 as [|n s Hn Hp IH]; simpl; constructor; auto.
  pose proof (prod_pos _ Hp). lia.
Qed.

Lemma unrav_inb k s : pos s -> inb (compute_indices k s) s.
Proof.
  intros Hp. unfold compute_indices. rewrite compute_strides_eq.
  apply unrav_inb_gen; auto using strides_length, strides_nonzero.
Qed.

(* ---------- round trips ---------- *)

Lemma unrav_off_gen idx s : pos s -> inb idx s ->
  forall q, compute_indices3 (q * prod s + off idx (strides s)) s (strides s) = idx.
Proof.
  intros Hp H. induction H as [|i n is s Hi H IH]; intros q; simpl; [reflexivity|].
  inversion Hp as [|? ? Hn Hps]; subst.
  pose proof (off_bound _ _ H) as Hb. pose proof (prod_pos _ Hps) as Hpp.
  replace (q * (n * prod s) + (prod s * i + off is (strides s)))
    with ((q * n + i) * prod s + off is (strides s)) by ring.
  f_equal.
  - rewrite Z.div_add_l by lia. rewrite (Z.div_small (off _ _)) by lia.
    rewrite Z.add_0_r. rewrite Z.add_comm, Z.mod_add by lia. apply Z.mod_small; lia.
  - apply IH; assumption.
Qed.

Lemma unrav_off idx s : pos s -> inb idx s ->
  compute_indices (compute_offset idx (compute_strides s)) s = idx.
Proof.
  intros Hp H. unfold compute_indices. rewrite compute_strides_eq, compute_offset_eq.
  pose proof (unrav_off_gen idx s Hp H 0) as G. now rewrite Z.mul_0_l, Z.add_0_l in G.
Qed.

Lemma off_unrav_mod s : pos s -> forall k, 0 <= k ->
  off (compute_indices3 k s (strides s)) (strides s) = k mod prod s.
Proof.
  induction 1 as [|n s Hn Hps IH]; intros k Hk; simpl.
  - now rewrite Z.mod_1_r.
  - pose proof (prod_pos _ Hps). rewrite IH by lia.
    rewrite (Z.mul_comm n), Z.rem_mul_r by lia. lia.
Qed.

Lemma off_unrav s k : pos s -> 0 <= k < prod s ->
  compute_offset (compute_indices k s) (compute_strides s) = k.
Proof.
  intros Hp Hk. unfold compute_indices. rewrite compute_strides_eq, compute_offset_eq.
  rewrite off_unrav_mod by (auto; lia). apply Z.mod_small; lia.
Qed.

(* the offset is Horner's rule: no strides needed to say what it is *)
Lemma horner_off idx s : inb idx s -> forall acc,
  horner acc idx s = acc * prod s + off idx (strides s).
Proof.
  induction 1 as [|i n is s Hi H IH]; intros acc; simpl; [ring|]. rewrite IH. ring.
Qed.

(* ---------- enumeration order ---------- *)

Lemma seq_add_map a m : seq a m = map (Nat.add a) (seq 0 m).
Proof.
  induction a as [|a IH]; simpl.
  - now rewrite map_id.
  - rewrite <- seq_shift, IH, map_map. reflexivity.
Qed.

Lemma seq_blocks N M :
  seq 0 (N * M) = flat_map (fun i => map (fun r => (i * M + r)%nat) (seq 0 M)) (seq 0 N).
Proof.
  induction N as [|N IH].
  - reflexivity.
  - replace (S N * M)%nat with (N * M + M)%nat by lia.
    rewrite seq_app, seq_S, flat_map_app, IH. simpl. rewrite app_nil_r.
    f_equal. apply seq_add_map.
Qed.

Lemma zs_blocks N M :
  zs (N * M) = flat_map (fun i => map (fun r => i * Z.of_nat M + r) (zs M)) (zs N).
Proof.
  unfold zs. rewrite seq_blocks.
  rewrite flat_map_concat_map, concat_map, map_map.
  rewrite flat_map_concat_map, map_map. f_equal.
  apply map_ext. intros i. rewrite !map_map. apply map_ext. intros r. lia.
Qed.

Lemma unrav_add_mult t : pos t -> forall m r,
  compute_indices3 (m * prod t + r) t (strides t) = compute_indices3 r t (strides t).
Proof.
  induction 1 as [|n t Hn Hp IH]; intros m r; cbn [compute_indices3 strides prod].
  - reflexivity.
  - pose proof (prod_pos _ Hp) as HP.
    replace (m * (n * prod t) + r) with ((m * n) * prod t + r) by ring. f_equal.
    + rewrite Z.div_add_l by lia. rewrite Z.add_comm, Z.mod_add by lia. reflexivity.
    + apply IH.
Qed.

Lemma ndindex_is_lex_enum_aux s : pos s ->
  map (fun k => compute_indices3 k s (strides s)) (zrange (prod s)) = lex_enum s.
Proof.
  unfold zrange.
  induction 1 as [|n t Hn Hp IH]; cbn [lex_enum prod strides].
  - reflexivity.
  - pose proof (prod_pos _ Hp) as HP. unfold zrange.
    replace (Z.to_nat (n * prod t)) with (Z.to_nat n * Z.to_nat (prod t))%nat by lia.
    rewrite zs_blocks, Z2Nat.id by lia.
    rewrite flat_map_concat_map, concat_map, map_map.
    rewrite flat_map_concat_map. f_equal.
    apply map_ext_in. intros i Hi. apply in_zs in Hi. rewrite Z2Nat.id in Hi by lia.
    rewrite <- IH, !map_map. apply map_ext_in. intros r Hr. apply in_zs in Hr.
    rewrite Z2Nat.id in Hr by lia.
    cbn [compute_indices3]. f_equal.
    + rewrite Z.div_add_l by lia. rewrite (Z.div_small r) by lia.
      rewrite Z.add_0_r. apply Z.mod_small; lia.
    + apply unrav_add_mult; assumption.
Qed.

Lemma ndindex_is_lex_enum s : pos s ->
  map (ndindex s) (zrange (ndindex_size s)) = lex_enum s.
Proof.
  intros Hp. unfold ndindex_size, ndindex, compute_indices.
  rewrite product_eq_prod, compute_strides_eq. now apply ndindex_is_lex_enum_aux.
Qed.

(* lex_enum is exactly the set of in-bounds multi-indices, without repetition *)
Lemma in_lex_enum s : pos s -> forall i, In i (lex_enum s) <-> inb i s.
Proof.
  induction 1 as [|n t Hn Hp IH]; intros i; cbn [lex_enum].
  - split; [intros [<-|[]]; constructor | intros H; inversion H; now left].
  - rewrite in_flat_map. split.
    + intros [x [Hx Hi]]. apply in_map_iff in Hi as [j [<- Hj]].
      apply in_zs in Hx. constructor; [lia | now apply IH].
    + intros H. inversion H as [|x ? j ? Hx Hj]; subst. exists x. split.
      * apply in_zs. lia.
      * apply in_map. now apply IH.
Qed.

Lemma NoDup_zs n : NoDup (zs n).
Proof.
  unfold zs. apply FinFun.Injective_map_NoDup; [|apply seq_NoDup].
  intros a b. lia.
Qed.


Lemma NoDup_app_intro {A} (a b : list A) :
  NoDup a -> NoDup b -> (forall x, In x a -> ~ In x b) -> NoDup (a ++ b).
Proof.
  induction 1 as [|x a Hx Ha IH]; intros Hb Hd; simpl; [assumption|].
  constructor.
  - rewrite in_app_iff. intros [H|H]; [contradiction | apply (Hd x); simpl; auto].
  - apply IH; auto. intros y Hy. apply Hd. now right.
Qed.

Lemma NoDup_lex_enum s : NoDup (lex_enum s).
Proof.
  induction s as [|n t IH]; cbn [lex_enum].
  - repeat constructor. intros [].
  - unfold zrange. generalize (NoDup_zs (Z.to_nat n)).
    generalize (zs (Z.to_nat n)) as l.
    induction 1 as [|x l Hx Hl IHl]; simpl; [constructor|].
    apply NoDup_app_intro.
    + apply FinFun.Injective_map_NoDup; [|assumption]. intros a b H; now injection H.
    + assumption.
    + intros y Hy Hy'. apply in_map_iff in Hy as [j [<- Hj]].
      apply in_flat_map in Hy' as [x' [Hx' Hy']].
      apply in_map_iff in Hy' as [j' [E Hj']]. injection E as -> ->. contradiction.
Qed.

Lemma length_lex_enum s : pos s -> Z.of_nat (length (lex_enum s)) = prod s.
Proof.
  intros Hp. rewrite <- (ndindex_is_lex_enum_aux s Hp), map_length. unfold zrange.
  rewrite zs_length. pose proof (prod_pos _ Hp). lia.
Qed.

(* ---------- order preservation ---------- *)

Lemma off_strict_mono a s : inb a s -> forall b, inb b s ->
  (lex_lt a b <-> off a (strides s) < off b (strides s)).
Proof.
  induction 1 as [|x n a s Hx Ha IH]; intros b Hb; inversion Hb as [|y ? b' ? Hy Hb']; subst.
  - simpl. lia.
  - cbn [lex_lt off strides].
    pose proof (off_bound _ _ Ha). pose proof (off_bound _ _ Hb').
    specialize (IH b' Hb'). split.
    + intros [Hlt | [-> Hl]]; [nia | apply IH in Hl; lia].
    + intros H1. destruct (Z.lt_trichotomy x y) as [Hlt | [-> | Hgt]].
      * now left.
      * right. split; [reflexivity | apply IH; lia].
      * exfalso. nia.
Qed.

Lemma off_inj a b s : inb a s -> inb b s ->
  off a (strides s) = off b (strides s) -> a = b.
Proof.
  intros Ha. revert b. induction Ha as [|x n a s Hx Ha IH]; intros b Hb;
    inversion Hb as [|y ? b' ? Hy Hb']; subst; [reflexivity|].
  cbn [off strides]. intros E.
  pose proof (off_bound _ _ Ha). pose proof (off_bound _ _ Hb').
  assert (x = y) by nia. subst. f_equal. apply IH; [assumption | nia].
Qed.

(* ---------- column-major layout ---------- *)

Lemma inb_rev i s : inb i s -> inb (rev i) (rev s).
Proof.
  induction 1 as [|x n i s Hx H IH]; simpl; [constructor|].
  apply inb_app; [assumption | repeat constructor; lia].
Qed.

Lemma pos_rev s : pos s -> pos (rev s).
Proof. unfold pos. apply Forall_rev. Qed.

Lemma off_app a1 s1 : length a1 = length s1 -> forall a2 s2,
  off (a1 ++ a2) (s1 ++ s2) = off a1 s1 + off a2 s2.
Proof.
  revert s1. induction a1 as [|x a1 IH]; intros [|y s1] Hl a2 s2; simpl in *; try discriminate; [lia|].
  rewrite IH by lia. lia.
Qed.

Lemma off_rev a : forall st, length a = length st -> off (rev a) (rev st) = off a st.
Proof.
  induction a as [|x a IH]; intros [|y st] Hl; simpl in *; try discriminate; [reflexivity|].
  rewrite off_app by (rewrite !rev_length; lia). rewrite IH by lia. simpl. lia.
Qed.

(* the column-major offset of i in s is the row-major offset of (rev i) in (rev s) *)
Lemma col_major_offset_eq s idx : length idx = length s ->
  col_major_offset s idx = off (rev idx) (strides (rev s)).
Proof.
  intros Hl. unfold col_major_offset, col_major_strides.
  rewrite compute_offset_eq, compute_strides_eq.
  rewrite <- (off_rev idx) by (rewrite rev_length, strides_length, rev_length; assumption).
  now rewrite rev_involutive.
Qed.

Lemma row_major_offset_eq s idx : row_major_offset s idx = off idx (strides s).
Proof. unfold row_major_offset, row_major_strides. now rewrite compute_offset_eq, compute_strides_eq. Qed.

Lemma prod_rev s : prod (rev s) = prod s.
Proof. induction s; simpl; [reflexivity|]. rewrite prod_app, IHs. simpl. ring. Qed.

Lemma layout_offset_bound L s i : inb i s -> 0 <= layout_offset L s i < prod s.
Proof.
  intros H. destruct L; simpl.
  - rewrite row_major_offset_eq. now apply off_bound.
  - rewrite col_major_offset_eq by now apply inb_length.
    rewrite <- prod_rev. apply off_bound. now apply inb_rev.
Qed.

Lemma rev_inj {A} (a b : list A) : rev a = rev b -> a = b.
Proof. intros H. rewrite <- (rev_involutive a), <- (rev_involutive b). now f_equal. Qed.

Lemma layout_offset_inj L s i j : inb i s -> inb j s ->
  layout_offset L s i = layout_offset L s j -> i = j.
Proof.
  intros Hi Hj. destruct L; simpl.
  - rewrite !row_major_offset_eq. now apply off_inj.
  - rewrite !col_major_offset_eq by now apply inb_length.
    intros E. apply rev_inj. eapply off_inj; eauto using inb_rev.
Qed.

(* ---------- read-over-write for array objects in either layout ---------- *)

Lemma upd_length {A} (l : list A) : forall k x, length (upd l k x) = length l.
Proof. induction l; destruct k; simpl; auto. Qed.

Lemma nth_error_upd {A} (l : list A) : forall k x j, (k < length l)%nat ->
  nth_error (upd l k x) j = if Nat.eqb j k then Some x else nth_error l j.
Proof.
  induction l as [|h t IH]; intros k x j Hk; simpl in Hk; [lia|].
  destruct k, j; simpl; auto. apply IH; lia.
Qed.

Lemma ndarray_get_set {A} L s (buf : list A) i j x :
  Z.of_nat (length buf) = prod s -> inb i s -> inb j s ->
  ndarray_get L s (ndarray_set L s buf i x) j =
  if list_eq_dec Z.eq_dec j i then Some x else ndarray_get L s buf j.
Proof.
  intros Hlen Hi Hj. unfold ndarray_get, ndarray_set.
  pose proof (layout_offset_bound L s i Hi) as Bi.
  pose proof (layout_offset_bound L s j Hj) as Bj.
  rewrite nth_error_upd by lia.
  destruct (list_eq_dec Z.eq_dec j i) as [->|Hne].
  - now rewrite Nat.eqb_refl.
  - destruct (Nat.eqb_spec (Z.to_nat (layout_offset L s j)) (Z.to_nat (layout_offset L s i))) as [E|E];
      [|reflexivity].
    exfalso. apply Hne. apply (layout_offset_inj L s j i Hj Hi). lia.
Qed.

Lemma ndarray_get_defined {A} L s (buf : list A) i :
  Z.of_nat (length buf) = prod s -> inb i s -> exists x, ndarray_get L s buf i = Some x.
Proof.
  intros Hlen Hi. unfold ndarray_get.
  pose proof (layout_offset_bound L s i Hi) as Bi.
  destruct (nth_error buf (Z.to_nat (layout_offset L s i))) eqn:E; [eauto|].
  apply nth_error_None in E. lia.
Qed.

(* ---------- no wrap-around below the width ---------- *)

Lemma fold_mul_w_acc w l : forall a, 0 <= a -> pos l -> a * prod l < 2 ^ w ->
  fold_left (fun acc n => wrap w (acc * n)) l a = a * prod l.
Proof.
  induction l as [|x l IH]; intros a Ha Hp Hb; simpl in *; [ring|].
  inversion Hp as [|? ? Hx Hp']; subst. pose proof (prod_pos _ Hp').
  rewrite wrap_small by nia. rewrite IH; [ring | nia | assumption | ].
  replace (a * x * prod l) with (a * (x * prod l)) by ring. assumption.
Qed.

Lemma product_w_no_wrap w s : pos s -> prod s < 2 ^ w -> product_w w s = prod s.
Proof.
  intros Hp Hb. unfold product_w. rewrite fold_mul_w_acc; [ring | lia | assumption | lia].
Qed.

Lemma pos_skipn s k : pos s -> pos (skipn k s).
Proof.
  unfold pos. revert s. induction k; intros s H; simpl; [assumption|].
  destruct s; [constructor|]. apply IHk. now inversion H.
Qed.

Lemma prod_skipn_le s k : pos s -> prod (skipn k s) <= prod s.
Proof.
  revert s. induction k; intros s Hp; simpl; [lia|].
  destruct s as [|n s]; [simpl; lia|]. inversion Hp; subst.
  specialize (IHk s H2). pose proof (prod_pos _ (pos_skipn s k H2)). simpl. nia.
Qed.

Lemma compute_strides_w_no_wrap w s : pos s -> prod s < 2 ^ w ->
  compute_strides_w w s = compute_strides s.
Proof.
  intros Hp Hb. unfold compute_strides_w, compute_strides. apply map_ext. intros k.
  unfold stride_w. rewrite stride_eq.
  pose proof (prod_skipn_le s (S k) Hp).
  rewrite fold_mul_w_acc; [ring | lia | now apply pos_skipn | lia].
Qed.

Lemma off_partial_bound idx s : inb idx s ->
  forall i n, 0 <= i < n -> 0 <= prod s * i + off idx (strides s) < n * prod s.
Proof. intros H i n Hi. pose proof (off_bound _ _ H). nia. Qed.

Lemma compute_offset_w_no_wrap_gen w idx s : inb idx s -> forall a,
  0 <= a -> a + off idx (strides s) < 2 ^ w -> prod s < 2 ^ w ->
  fold_left (fun acc p => wrap w (acc + wrap w (wrap w (snd p) * wrap w (fst p))))
            (combine idx (strides s)) a = a + off idx (strides s).
Proof.
  induction 1 as [|i n is s Hi H IH]; intros a Ha Hb Hps;
    cbn [fold_left combine strides off fst snd prod] in *; [lia|].
  pose proof (off_bound _ _ H) as Hob.
  set (P := prod s) in *. set (O := off is (strides s)) in *. set (W := 2 ^ w) in *.
  assert (HP : 1 <= P) by lia.
  assert (HPW : P < W) by nia.
  assert (HiW : i < W) by nia.
  assert (HPi : 0 <= P * i < W) by nia.
  rewrite (wrap_small w P) by (fold W; lia).
  rewrite (wrap_small w i) by (fold W; lia).
  rewrite (wrap_small w (P * i)) by (fold W; lia).
  rewrite wrap_small by (fold W; lia).
  rewrite IH; [lia | lia | lia | lia].
Qed.

Lemma compute_offset_w_no_wrap w idx s : pos s -> inb idx s -> prod s < 2 ^ w ->
  compute_offset_w w idx (compute_strides s) = compute_offset idx (compute_strides s).
Proof.
  intros Hp H Hb. unfold compute_offset_w. rewrite compute_offset_eq, compute_strides_eq.
  pose proof (off_bound _ _ H).
  rewrite compute_offset_w_no_wrap_gen; auto; lia.
Qed.
