(* ViewsProofs.v — lemmas about Views.v for arbitrary dimension and extents. *)
From Coq Require Import Permutation.
From NM Require Import Base Index IndexProofs Views.
Local Open Scope Z_scope.

(* ===================================================================== generic list facts *)

Lemma nth_upd (l : list Z) : forall k x j, (k < length l)%nat ->
  nth j (upd l k x) 0 = if Nat.eqb j k then x else nth j l 0.
Proof.
  induction l as [|h t IH]; intros k x j Hk; simpl in Hk; [lia|].
  destruct k, j; simpl; auto. apply IH; lia.
Qed.

Lemma inb_nth i s : inb i s <->
  length i = length s /\ forall k, (k < length s)%nat -> 0 <= nth k i 0 < nth k s 0.
Proof.
  split.
  - induction 1 as [|x n i s Hx H [IHl IHn]]; simpl; split; auto; try lia.
    intros [|k] Hk; [assumption | apply IHn; lia].
  - revert s. induction i as [|x i IH]; intros [|n s] [Hl Hn]; simpl in *; try discriminate; constructor.
    + apply (Hn O). lia.
    + apply IH. split; [lia|]. intros k Hk. apply (Hn (S k)). lia.
Qed.

Lemma pos_nth s : pos s <-> forall k, (k < length s)%nat -> 1 <= nth k s 0.
Proof.
  unfold pos. rewrite Forall_forall. split.
  - intros H k Hk. apply H. now apply nth_In.
  - intros H x Hx. apply (In_nth _ _ 0) in Hx as [k [Hk <-]]. now apply H.
Qed.

Lemma map_seq_nth_ext (f : nat -> Z) (l : list Z) n :
  length l = n -> (forall k, (k < n)%nat -> nth k l 0 = f k) -> l = map f (seq 0 n).
Proof.
  intros Hl H. apply nth_ext with (d := 0) (d' := f O).
  - now rewrite map_length, seq_length.
  - intros k Hk. rewrite Hl in Hk. rewrite (map_nth f), seq_nth by lia. now apply H.
Qed.

Lemma nth_map_seq (f : nat -> Z) n k : (k < n)%nat -> nth k (map f (seq 0 n)) 0 = f k.
Proof.
  intros Hk. rewrite (nth_indep _ 0 (f O)) by now rewrite map_length, seq_length.
  now rewrite (map_nth f), seq_nth.
Qed.

Lemma nth_zs n k : (k < n)%nat -> nth k (zs n) 0 = Z.of_nat k.
Proof.
  intros Hk. unfold zs. rewrite (nth_indep _ 0 (Z.of_nat O)) by now rewrite map_length, seq_length.
  now rewrite (map_nth Z.of_nat), seq_nth.
Qed.

Lemma reverse_eq_rev l : reverse l = rev l.
Proof.
  unfold reverse. symmetry. apply map_seq_nth_ext.
  - apply rev_length.
  - intros k Hk. rewrite rev_nth by lia. f_equal. lia.
Qed.

(* ===================================================================== reshape *)

Definition count_m1 (dst : list Z) : nat := length (filter (fun d => d =? -1) dst).

Lemma length_known dst : (length dst - length (np_known dst))%nat = count_m1 dst
  /\ (length (np_known dst) <= length dst)%nat.
Proof.
  unfold np_known, count_m1. induction dst as [|d t [IH1 IH2]]; simpl; [split; reflexivity|].
  destruct (d =? -1); simpl; split; lia.
Qed.

Lemma cnr_fold dst : forall c n,
  fst (fold_left (fun (st : Z * Z) d => if d =? -1 then (fst st + 1, snd st) else (fst st, wrap 64 (snd st * wrap 64 d))) dst (c, n))
  = c + Z.of_nat (count_m1 dst).
Proof.
  unfold count_m1. induction dst as [|d t IH]; intros c n; simpl; [lia|].
  destruct (d =? -1); simpl; rewrite IH; simpl; lia.
Qed.

Lemma cnr_fold_snd dst : forall c n, 1 <= n -> pos (np_known dst) -> n * prod (np_known dst) < 2 ^ 64 ->
  snd (fold_left (fun (st : Z * Z) d => if d =? -1 then (fst st + 1, snd st) else (fst st, wrap 64 (snd st * wrap 64 d))) dst (c, n))
  = n * prod (np_known dst).
Proof.
  unfold np_known. induction dst as [|d t IH]; intros c n Hn Hp Hb; simpl in *; [lia|].
  destruct (d =? -1) eqn:E; simpl in *.
  - apply IH; assumption.
  - inversion Hp as [|? ? Hd Hp']; subst. pose proof (prod_pos _ Hp') as HP.
    set (K := prod (filter (fun d0 => negb (d0 =? -1)) t)) in *.
    assert (Hd64 : 0 <= d < 2 ^ 64) by nia.
    rewrite (wrap_small 64 d) by assumption.
    assert (Hnd : 0 <= n * d < 2 ^ 64) by nia.
    rewrite wrap_small by assumption.
    rewrite IH; [ring | nia | assumption | ].
    replace (n * d * K) with (n * (d * K)) by ring. assumption.
Qed.

Lemma known_all_of_count0 dst : count_m1 dst = O ->
  np_known dst = dst /\ forall q, map (fun d => if d =? -1 then q else d) dst = dst.
Proof.
  unfold count_m1, np_known. induction dst as [|d t IH]; simpl; intros H; [split; reflexivity|].
  destruct (d =? -1) eqn:E; simpl in *; [discriminate|].
  destruct (IH H) as [I1 I2]. split; [now rewrite I1 | intros q; now rewrite I2].
Qed.

Lemma prod_replace_count1 dst q : count_m1 dst = 1%nat ->
  prod (map (fun d => if d =? -1 then q else d) dst) = q * prod (np_known dst).
Proof.
  unfold count_m1, np_known. induction dst as [|d t IH]; simpl; intros H; [discriminate|].
  destruct (d =? -1) eqn:E; simpl in *.
  - injection H as H. destruct (known_all_of_count0 t H) as [I1 I2].
    unfold np_known in I1. now rewrite I1, I2.
  - rewrite IH by assumption. ring.
Qed.

Lemma pos_replace dst q : pos (np_known dst) -> 1 <= q -> pos (map (fun d => if d =? -1 then q else d) dst).
Proof.
  unfold np_known, pos. induction dst as [|d t IH]; simpl; intros Hp Hq; [constructor|].
  destruct (d =? -1) eqn:E; simpl in *.
  - constructor; auto.
  - inversion Hp; subst. constructor; auto.
Qed.

Lemma forallb_pos l : forallb (fun d => 1 <=? d) l = true <-> pos l.
Proof. exact (posb_pos l). Qed.

(* what NumPy accepts has positive extents and the same element count *)
Lemma np_reshape_shape_sound src dst d : pos src ->
  np_reshape_shape src dst = Some d -> pos d /\ prod d = prod src /\ length d = length dst.
Proof.
  intros Hs. unfold np_reshape_shape.
  destruct (forallb (fun d0 => 1 <=? d0) (np_known dst)) eqn:F; [|discriminate].
  apply forallb_pos in F. destruct (length_known dst) as [-> _].
  destruct (count_m1 dst) as [|[|c]] eqn:C; try discriminate.
  - destruct (prod dst =? prod src) eqn:E; [|discriminate]. intros H; injection H as <-.
    destruct (known_all_of_count0 dst C) as [K _]. rewrite K in F. split; [assumption | split; [lia | reflexivity]].
  - destruct (prod src mod prod (np_known dst) =? 0) eqn:E; [|discriminate]. intros H; injection H as <-.
    pose proof (prod_pos _ Hs) as HS. pose proof (prod_pos _ F) as HK.
    assert (Hm : prod src mod prod (np_known dst) = 0) by lia.
    apply Z.div_exact in Hm; [|lia].
    assert (Hq : 1 <= prod src / prod (np_known dst)) by nia.
    split; [now apply pos_replace | split; [| now rewrite map_length]].
    rewrite prod_replace_count1 by assumption. lia.
Qed.

(* shape_reshape accepts exactly what NumPy accepts, with NumPy's shape *)
Lemma shape_reshape_np src dst : pos src -> prod src < 2 ^ 64 -> dst <> [] ->
  prod (np_known dst) < 2 ^ 64 -> shape_reshape src dst = np_reshape_shape src dst.
Proof.
  intros Hs Hb Hne Hkb. unfold shape_reshape, np_reshape_shape, count_negative_reshape.
  rewrite cnr_fold, Z.add_0_l. destruct (length_known dst) as [-> _].
  rewrite (product_w_no_wrap 64 src Hs Hb).
  destruct (forallb (fun d => 1 <=? d) (np_known dst)) eqn:F.
  - assert (HX : existsb (fun d => negb (d =? -1) && (d <? 1)) dst = false).
    { apply Bool.not_true_is_false. intros HX. apply existsb_exists in HX as [x [Hx Hc]].
      apply andb_prop in Hc as [Hc1 Hc2].
      assert (Hin : In x (np_known dst)) by (unfold np_known; apply filter_In; auto).
      rewrite forallb_forall in F. specialize (F x Hin). lia. }
    rewrite HX. apply forallb_pos in F. pose proof (prod_pos _ F) as HK.
    destruct dst as [|d0 t]; [congruence|].
    rewrite cnr_fold_snd by (auto; lia). rewrite Z.mul_1_l.
    set (K := prod (np_known (d0 :: t))) in *.
    pose proof (prod_pos _ Hs) as HS.
    destruct (count_m1 (d0 :: t)) as [|[|c]] eqn:C.
    + cbn [Z.of_nat]. replace (1 <? 0) with false by reflexivity.
      replace (K =? 0) with false by lia. cbn [Z.eqb andb].
      destruct (known_all_of_count0 _ C) as [K1 K2]. unfold K. rewrite K1, K2.
      rewrite (Z.eqb_sym (prod (d0 :: t))).
      destruct (prod src =? prod (d0 :: t)) eqn:E; cbn [negb]; [|reflexivity].
      apply Z.eqb_eq in E. rewrite E, Z.mod_same by (rewrite <- E; lia). reflexivity.
    + replace (1 <? Z.of_nat 1) with false by reflexivity. replace (K =? 0) with false by lia.
      replace (Z.of_nat 1 =? 0) with false by reflexivity. cbn [andb].
      destruct (prod src mod K =? 0); reflexivity.
    + replace (1 <? Z.of_nat (S (S c))) with true by lia. reflexivity.
  - assert (HX : 1 <? Z.of_nat (count_m1 dst) = true \/ existsb (fun d => negb (d =? -1) && (d <? 1)) dst = true).
    { right. apply existsb_exists.
      assert (HF : ~ (forall x, In x (np_known dst) -> (1 <=? x) = true)) by (rewrite <- forallb_forall; congruence).
      destruct (existsb (fun d => negb (1 <=? d)) (np_known dst)) eqn:Ex.
      - apply existsb_exists in Ex as [x [Hx Hc]]. unfold np_known in Hx. apply filter_In in Hx as [Hx1 Hx2].
        exists x. split; [assumption|]. rewrite Hx2. simpl. lia.
      - exfalso. apply HF. intros x Hx. destruct (1 <=? x) eqn:E; [reflexivity|].
        assert (existsb (fun d => negb (1 <=? d)) (np_known dst) = true) by (apply existsb_exists; exists x; rewrite E; auto).
        congruence. }
    destruct (1 <? Z.of_nat (count_m1 dst)); [reflexivity|]. destruct HX as [HX|HX]; [discriminate|]. now rewrite HX.
Qed.

(* reshape/flatten keep the C order: the source index the view reads has the same
   row-major rank as the result index, and it lies inside the source *)
Lemma reshape_index_spec src d i : pos src -> pos d -> prod d = prod src -> inb i d ->
  inb (reshape_index src d i) src
  /\ compute_offset (reshape_index src d i) (compute_strides src) = compute_offset i (compute_strides d)
  /\ compute_offset i (compute_strides d) = np_reshape_rank d i.
Proof.
  intros Hs Hd Hp Hi. unfold reshape_index, np_reshape_rank.
  pose proof (off_bound _ _ Hi) as Hb.
  assert (E : compute_offset i (compute_strides d) = off i (strides d)) by now rewrite compute_offset_eq, compute_strides_eq.
  split; [now apply unrav_inb|]. split.
  - apply off_unrav; [assumption|]. rewrite E. lia.
  - rewrite E, horner_off by assumption. lia.
Qed.

Lemma reshape_inb dst src d i : pos src -> prod src < 2 ^ 64 -> dst <> [] -> prod (np_known dst) < 2 ^ 64 ->
  reshape_accept dst src = Some d -> inb i d -> inb (reshape_index src d i) src.
Proof.
  intros Hs Hb Hne Hk Ha Hi. unfold reshape_accept in Ha. rewrite shape_reshape_np in Ha by assumption.
  destruct (np_reshape_shape_sound _ _ _ Hs Ha) as [Hd [Hp _]].
  now apply reshape_index_spec.
Qed.

Lemma flatten_accept_eq src : pos src -> prod src < 2 ^ 64 -> flatten_accept src = Some [prod src].
Proof.
  intros Hs Hb. unfold flatten_accept. rewrite (product_w_no_wrap 64 src Hs Hb).
  pose proof (prod_pos _ Hs) as HP.
  assert (E : (prod src =? -1) = false) by lia.
  rewrite shape_reshape_np; try assumption; try discriminate.
  - unfold np_reshape_shape, np_known. simpl. rewrite E. simpl.
    replace (1 <=? prod src) with true by lia. simpl.
    replace (prod src * 1 =? prod src) with true by lia. reflexivity.
  - unfold np_known. simpl. rewrite E. simpl. lia.
Qed.

(* composition of two reshapes back to the original shape is the identity on indices *)
Lemma reshape_roundtrip s d i : pos s -> pos d -> prod d = prod s -> inb i s ->
  reshape_index s d (reshape_index d s i) = i.
Proof.
  intros Hs Hd Hp Hi. unfold reshape_index.
  pose proof (off_bound _ _ Hi) as Hb.
  assert (E : compute_offset i (compute_strides s) = off i (strides s)) by now rewrite compute_offset_eq, compute_strides_eq.
  rewrite off_unrav by (auto; rewrite E; lia).
  now apply unrav_off.
Qed.
