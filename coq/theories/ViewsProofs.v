(* ViewsProofs.v — lemmas about Views.v for arbitrary dimension and extents. *)
From Coq Require Import Permutation.
From NM Require Import Base Index IndexProofs Views.
Local Open Scope Z_scope.

Lemma reverse_eq_rev l : reverse l = rev l.
Proof.
  unfold reverse. apply nth_ext with (d := 0) (d' := 0).
  - now rewrite map_length, seq_length, rev_length.
  - intros k Hk. rewrite map_length, seq_length in Hk.
    rewrite (nth_indep _ 0 (nth (length l - 1 - 0) l 0)) by (rewrite map_length, seq_length; lia).
    rewrite (map_nth (fun i => nth (length l - 1 - i) l 0)), seq_nth by lia.
    rewrite rev_nth by lia. f_equal. lia.
Qed.
