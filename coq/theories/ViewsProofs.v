(* ViewsProofs.v — lemmas about Views.v for arbitrary dimension and extents. *)
From Coq Require Import Permutation.
From NM Require Import Base Index IndexProofs Views.
Local Open Scope Z_scope.

(* ===================================================================== generic list facts *)

Lemma nth_upd (l : list Z) : forall k x j, (k < length l)%nat ->
  nth j (upd l k x) 0 = if Nat.eqb j k then x else nth j l 0.
Proof.
  induction l as [|h t IH]; intros k x j Hk; simpl in Hk; [lia|].
  destruct k, j; simpl; auto. apply IH; lia.
Qed.

Lemma inb_nth i s : inb i s <->
  length i = length s /\ forall k, (k < length s)%nat -> 0 <= nth k i 0 < nth k s 0.
Proof.
  split.
  - induction 1 as [|x n i s Hx H [IHl IHn]]; simpl; split; auto; try lia.
    intros [|k] Hk; [assumption | apply IHn; lia].
  - revert s. induction i as [|x i IH]; intros [|n s] [Hl Hn]; simpl in *; try discriminate; constructor.
    + apply (Hn O). lia.
    + apply IH. split; [lia|]. intros k Hk. apply (Hn (S k)). lia.
Qed.

Lemma pos_nth s : pos s <-> forall k, (k < length s)%nat -> 1 <= nth k s 0.
Proof.
  unfold pos. rewrite Forall_forall. split.
  - intros H k Hk. apply H. now apply nth_In.
  - intros H x Hx. apply (In_nth _ _ 0) in Hx as [k [Hk <-]]. now apply H.
Qed.

Lemma map_seq_nth_ext (f : nat -> Z) (l : list Z) n :
  length l = n -> (forall k, (k < n)%nat -> nth k l 0 = f k) -> l = map f (seq 0 n).
Proof.
  intros Hl H. apply nth_ext with (d := 0) (d' := f O).
  - now rewrite map_length, seq_length.
  - intros k Hk. rewrite Hl in Hk. rewrite (map_nth f), seq_nth by lia. now apply H.
Qed.

Lemma nth_map_seq (f : nat -> Z) n k : (k < n)%nat -> nth k (map f (seq 0 n)) 0 = f k.
Proof.
  intros Hk. rewrite (nth_indep _ 0 (f O)) by now rewrite map_length, seq_length.
  now rewrite (map_nth f), seq_nth.
Qed.

Lemma nth_zs n k : (k < n)%nat -> nth k (zs n) 0 = Z.of_nat k.
Proof.
  intros Hk. unfold zs. rewrite (nth_indep _ 0 (Z.of_nat O)) by now rewrite map_length, seq_length.
  now rewrite (map_nth Z.of_nat), seq_nth.
Qed.

Lemma reverse_eq_rev l : reverse l = rev l.
Proof.
  unfold reverse. symmetry. apply map_seq_nth_ext.
  - apply rev_length.
  - intros k Hk. rewrite rev_nth by lia. f_equal. lia.
Qed.

(* ===================================================================== reshape *)

Definition count_m1 (dst : list Z) : nat := length (filter (fun d => d =? -1) dst).

Lemma length_known dst : (length dst - length (np_known dst))%nat = count_m1 dst
  /\ (length (np_known dst) <= length dst)%nat.
Proof.
  unfold np_known, count_m1. induction dst as [|d t [IH1 IH2]]; [split; reflexivity|].
  cbn [filter]. destruct (d =? -1); cbn [negb length]; split; lia.
Qed.

Lemma cnr_fold dst : forall c n,
  fst (fold_left (fun (st : Z * Z) d => if d =? -1 then (fst st + 1, snd st) else (fst st, wrap 64 (snd st * wrap 64 d))) dst (c, n))
  = c + Z.of_nat (count_m1 dst).
Proof.
  unfold count_m1. induction dst as [|d t IH]; intros c n; simpl; [lia|].
  destruct (d =? -1); simpl; rewrite IH; simpl; lia.
Qed.

Lemma cnr_fold_snd dst : forall c n, 1 <= n -> pos (np_known dst) -> n * prod (np_known dst) < 2 ^ 64 ->
  snd (fold_left (fun (st : Z * Z) d => if d =? -1 then (fst st + 1, snd st) else (fst st, wrap 64 (snd st * wrap 64 d))) dst (c, n))
  = n * prod (np_known dst).
Proof.
  unfold np_known. induction dst as [|d t IH]; intros c n Hn Hp Hb; simpl in *; [lia|].
  destruct (d =? -1) eqn:E; simpl in *.
  - apply IH; assumption.
  - inversion Hp as [|? ? Hd Hp']; subst. pose proof (prod_pos _ Hp') as HP.
    set (K := prod (filter (fun d0 => negb (d0 =? -1)) t)) in *.
    assert (Hd64 : 0 <= d < 2 ^ 64) by nia.
    rewrite (wrap_small 64 d) by assumption.
    assert (Hnd : 0 <= n * d < 2 ^ 64) by nia.
    rewrite wrap_small by assumption.
    rewrite IH; [ring | nia | assumption | ].
    replace (n * d * K) with (n * (d * K)) by ring. assumption.
Qed.

Lemma known_all_of_count0 dst : count_m1 dst = O ->
  np_known dst = dst /\ forall q, map (fun d => if d =? -1 then q else d) dst = dst.
Proof.
  unfold count_m1, np_known. induction dst as [|d t IH]; simpl; intros H; [split; reflexivity|].
  destruct (d =? -1) eqn:E; simpl in *; [discriminate|].
  destruct (IH H) as [I1 I2]. split; [now rewrite I1 | intros q; now rewrite I2].
Qed.

Lemma prod_replace_count1 dst q : count_m1 dst = 1%nat ->
  prod (map (fun d => if d =? -1 then q else d) dst) = q * prod (np_known dst).
Proof.
  unfold count_m1, np_known. induction dst as [|d t IH]; simpl; intros H; [discriminate|].
  destruct (d =? -1) eqn:E; simpl in *.
  - injection H as H. destruct (known_all_of_count0 t H) as [I1 I2].
    unfold np_known in I1. now rewrite I1, I2.
  - rewrite IH by assumption. ring.
Qed.

Lemma pos_replace dst q : pos (np_known dst) -> 1 <= q -> pos (map (fun d => if d =? -1 then q else d) dst).
Proof.
  unfold np_known, pos. induction dst as [|d t IH]; simpl; intros Hp Hq; [constructor|].
  destruct (d =? -1) eqn:E; simpl in *.
  - constructor; auto.
  - inversion Hp; subst. constructor; auto.
Qed.

Lemma forallb_false_exists {A} (f : A -> bool) l : forallb f l = false -> exists x, In x l /\ f x = false.
Proof.
  induction l as [|a l IH]; simpl; [discriminate|]. intros H. apply andb_false_iff in H as [H|H].
  - exists a. auto.
  - destruct (IH H) as [x [Hx Hf]]. exists x. auto.
Qed.

Lemma forallb_pos l : forallb (fun d => 1 <=? d) l = true <-> pos l.
Proof. exact (posb_pos l). Qed.

(* what NumPy accepts has positive extents and the same element count *)
Lemma np_reshape_shape_sound src dst d : pos src ->
  np_reshape_shape src dst = Some d -> pos d /\ prod d = prod src /\ length d = length dst.
Proof.
  intros Hs. unfold np_reshape_shape.
  destruct (forallb (fun d0 => 1 <=? d0) (np_known dst)) eqn:F; [|discriminate].
  apply forallb_pos in F. destruct (length_known dst) as [-> _].
  destruct (count_m1 dst) as [|[|c]] eqn:C; try discriminate.
  - destruct (prod dst =? prod src) eqn:E; [|discriminate]. intros H; injection H as <-.
    destruct (known_all_of_count0 dst C) as [K _]. rewrite K in F. split; [assumption | split; [lia | reflexivity]].
  - destruct (prod src mod prod (np_known dst) =? 0) eqn:E; [|discriminate]. intros H; injection H as <-.
    pose proof (prod_pos _ Hs) as HS. pose proof (prod_pos _ F) as HK.
    assert (Hm : prod src mod prod (np_known dst) = 0) by lia.
    apply Z.div_exact in Hm; [|lia].
    assert (Hq : 1 <= prod src / prod (np_known dst)) by nia.
    split; [now apply pos_replace | split; [| now rewrite map_length]].
    rewrite prod_replace_count1 by assumption. lia.
Qed.

(* shape_reshape accepts exactly what NumPy accepts, with NumPy's shape *)
Lemma shape_reshape_np src dst : pos src -> prod src < 2 ^ 64 -> dst <> [] ->
  prod (np_known dst) < 2 ^ 64 -> shape_reshape src dst = np_reshape_shape src dst.
Proof.
  intros Hs Hb Hne Hkb. unfold shape_reshape, np_reshape_shape, count_negative_reshape.
  rewrite cnr_fold, Z.add_0_l. destruct (length_known dst) as [-> _].
  rewrite (product_w_no_wrap 64 src Hs Hb).
  destruct (forallb (fun d => 1 <=? d) (np_known dst)) eqn:F.
  - assert (HX : existsb (fun d => negb (d =? -1) && (d <? 1)) dst = false).
    { apply Bool.not_true_is_false. intros HX. apply existsb_exists in HX as [x [Hx Hc]].
      apply andb_prop in Hc as [Hc1 Hc2].
      assert (Hin : In x (np_known dst)) by (unfold np_known; apply filter_In; auto).
      rewrite forallb_forall in F. specialize (F x Hin). lia. }
    rewrite HX. apply forallb_pos in F. pose proof (prod_pos _ F) as HK.
    destruct dst as [|d0 t]; [congruence|].
    rewrite cnr_fold_snd by (auto; lia). rewrite Z.mul_1_l.
    set (K := prod (np_known (d0 :: t))) in *.
    pose proof (prod_pos _ Hs) as HS.
    destruct (count_m1 (d0 :: t)) as [|[|c]] eqn:C.
    + cbn [Z.of_nat]. replace (1 <? 0) with false by reflexivity.
      replace (K =? 0) with false by lia. cbn [Z.eqb andb].
      destruct (known_all_of_count0 _ C) as [K1 K2]. unfold K. rewrite K1, K2.
      rewrite (Z.eqb_sym (prod (d0 :: t))).
      destruct (prod src =? prod (d0 :: t)) eqn:E; cbn [negb]; [|reflexivity].
      apply Z.eqb_eq in E. rewrite E, Z.mod_same by (rewrite <- E; lia). reflexivity.
    + replace (1 <? Z.of_nat 1) with false by reflexivity. replace (K =? 0) with false by lia.
      replace (Z.of_nat 1 =? 0) with false by reflexivity. cbn [andb].
      destruct (prod src mod K =? 0); reflexivity.
    + destruct (Z.ltb_spec 1 (Z.of_nat (S (S c)))) as [_|Hc]; [reflexivity | lia].
  - assert (HX : 1 <? Z.of_nat (count_m1 dst) = true \/ existsb (fun d => negb (d =? -1) && (d <? 1)) dst = true).
    { right. apply existsb_exists. apply forallb_false_exists in F as [x [Hx Hc]].
      unfold np_known in Hx. apply filter_In in Hx as [Hx1 Hx2].
      exists x. split; [assumption|]. rewrite Hx2. simpl. lia. }
    destruct (1 <? Z.of_nat (count_m1 dst)); [reflexivity|]. destruct HX as [HX|HX]; [discriminate|]. now rewrite HX.
Qed.

(* reshape/flatten keep the C order: the source index the view reads has the same
   row-major rank as the result index, and it lies inside the source *)
Lemma reshape_index_spec src d i : pos src -> pos d -> prod d = prod src -> inb i d ->
  inb (reshape_index src d i) src
  /\ compute_offset (reshape_index src d i) (compute_strides src) = compute_offset i (compute_strides d)
  /\ compute_offset i (compute_strides d) = np_reshape_rank d i.
Proof.
  intros Hs Hd Hp Hi. unfold reshape_index, np_reshape_rank.
  pose proof (off_bound _ _ Hi) as Hb.
  assert (E : compute_offset i (compute_strides d) = off i (strides d)) by now rewrite compute_offset_eq, compute_strides_eq.
  split; [now apply unrav_inb|]. split.
  - apply off_unrav; [assumption|]. rewrite E. lia.
  - rewrite E, horner_off by assumption. lia.
Qed.

Lemma reshape_inb dst src d i : pos src -> prod src < 2 ^ 64 -> dst <> [] -> prod (np_known dst) < 2 ^ 64 ->
  reshape_accept dst src = Some d -> inb i d -> inb (reshape_index src d i) src.
Proof.
  intros Hs Hb Hne Hk Ha Hi. unfold reshape_accept in Ha. rewrite shape_reshape_np in Ha by assumption.
  destruct (np_reshape_shape_sound _ _ _ Hs Ha) as [Hd [Hp _]].
  now apply reshape_index_spec.
Qed.

Lemma flatten_accept_eq src : pos src -> prod src < 2 ^ 64 -> flatten_accept src = Some [prod src].
Proof.
  intros Hs Hb. unfold flatten_accept. rewrite (product_w_no_wrap 64 src Hs Hb).
  pose proof (prod_pos _ Hs) as HP.
  assert (E : (prod src =? -1) = false) by lia.
  rewrite shape_reshape_np; try assumption; try discriminate.
  - unfold np_reshape_shape, np_known. simpl. rewrite E. simpl.
    replace (1 <=? prod src) with true by lia. simpl.
    replace (prod src * 1 =? prod src) with true by lia. reflexivity.
  - unfold np_known. simpl. rewrite E. simpl. lia.
Qed.

(* composition of two reshapes back to the original shape is the identity on indices *)
Lemma reshape_roundtrip s d i : pos s -> pos d -> prod d = prod s -> inb i s ->
  reshape_index s d (reshape_index d s i) = i.
Proof.
  intros Hs Hd Hp Hi. unfold reshape_index.
  pose proof (off_bound _ _ Hi) as Hb.
  assert (E : compute_offset i (compute_strides s) = off i (strides s)) by now rewrite compute_offset_eq, compute_strides_eq.
  rewrite off_unrav by (auto; rewrite E; lia).
  now apply unrav_off.
Qed.

(* ===================================================================== scatter / transpose *)

Section ScatterLoop.
Variable posf : nat -> nat.
Variable val : nat -> Z.
Let step := fun (r : list Z) (k : nat) => upd r (posf k) (val k).

Lemma sloop_length ks : forall ret, length (fold_left step ks ret) = length ret.
Proof. induction ks as [|a ks IH]; intros ret; simpl; [reflexivity|]. rewrite IH. apply upd_length. Qed.

Lemma sloop_untouched n m ks : forall ret, length ret = n ->
  (forall k, In k ks -> (posf k < n)%nat /\ posf k <> m) ->
  nth m (fold_left step ks ret) 0 = nth m ret 0.
Proof.
  induction ks as [|a ks IH]; intros ret Hl H; simpl; [reflexivity|].
  rewrite IH; [| unfold step; now rewrite upd_length | intros k Hk; apply H; now right].
  destruct (H a (or_introl eq_refl)) as [Ha Hm]. unfold step.
  rewrite nth_upd by lia. destruct (Nat.eqb_spec m (posf a)); [congruence | reflexivity].
Qed.

Lemma sloop_spec n ks : forall ret, length ret = n ->
  (forall k, In k ks -> (posf k < n)%nat) -> NoDup ks ->
  (forall j k, In j ks -> In k ks -> posf j = posf k -> j = k) ->
  forall k, In k ks -> nth (posf k) (fold_left step ks ret) 0 = val k.
Proof.
  induction ks as [|a ks IH]; intros ret Hl Hr Hnd Hinj k Hk; [contradiction|].
  apply NoDup_cons_iff in Hnd as [Hna Hnd]. simpl.
  destruct Hk as [->|Hk].
  - rewrite (sloop_untouched n); [| unfold step; now rewrite upd_length |].
    + unfold step. rewrite nth_upd by (rewrite Hl; apply Hr; now left). now rewrite Nat.eqb_refl.
    + intros j Hj. split; [apply Hr; now right|]. intros E. apply Hna.
      rewrite <- (Hinj j k); auto; [now right | now left].
  - apply IH; auto.
    + unfold step. now rewrite upd_length.
    + intros j Hj. apply Hr. now right.
    + intros i j Hi Hj. apply Hinj; now right.
Qed.
End ScatterLoop.

Lemma fold_left_ext_inv {A B} (P : A -> Prop) (f g : A -> B -> A) l : forall a,
  P a -> (forall a b, P a -> In b l -> f a b = g a b /\ P (f a b)) -> fold_left f l a = fold_left g l a.
Proof.
  induction l as [|b l IH]; intros a Ha H; simpl; [reflexivity|].
  destruct (H a b Ha (or_introl eq_refl)) as [E HP]. rewrite <- E. apply IH; [assumption|].
  intros a' b' Ha' Hb'. apply H; [assumption | now right].
Qed.

Definition posf (p : list Z) (n : nat) (k : nat) : nat := Z.to_nat (at_pos (Z.of_nat n) (nth k p 0)).

Lemma scatter_eq v p : scatter v p =
  fold_left (fun r k => upd r (posf p (length v) k) (nth k v 0)) (seq 0 (length p)) (repeat 0 (length v)).
Proof.
  unfold scatter. apply (fold_left_ext_inv (fun r => length r = length v)).
  - apply repeat_length.
  - intros r k Hr _. split; [unfold posf, zlen; now rewrite Hr | now rewrite upd_length].
Qed.

Lemma scatter_length v p : length (scatter v p) = length v.
Proof. rewrite scatter_eq, sloop_length. apply repeat_length. Qed.

(* [q] lists 0..n-1 without repetition *)
Definition perm (n : nat) (q : list Z) : Prop :=
  length q = n /\ (forall k, (k < n)%nat -> 0 <= nth k q 0 < Z.of_nat n) /\ NoDup q.

Lemma nodupb_NoDup l : nodupb l = true <-> NoDup l.
Proof.
  induction l as [|x t IH]; simpl; [split; [constructor | reflexivity]|].
  rewrite andb_true_iff, negb_true_iff, IH, NoDup_cons_iff.
  assert (E : existsb (Z.eqb x) t = false <-> ~ In x t).
  { split.
    - intros H Hin. assert (existsb (Z.eqb x) t = true) by (apply existsb_exists; exists x; split; [assumption | apply Z.eqb_refl]). congruence.
    - intros H. apply Bool.not_true_is_false. intros Hex. apply existsb_exists in Hex as [y [Hy E]].
      apply Z.eqb_eq in E. subst. contradiction. }
  now rewrite E.
Qed.

Lemma is_permb_perm n q : is_permb n q = true <-> perm n q.
Proof.
  unfold is_permb, perm. rewrite !andb_true_iff, Nat.eqb_eq, nodupb_NoDup, forallb_forall. split.
  - intros [[Hl Hr] Hn]. split; [assumption|]. split; [|assumption].
    intros k Hk. assert (Hin : In (nth k q 0) q) by (apply nth_In; lia). specialize (Hr _ Hin). lia.
  - intros [Hl [Hr Hn]]. split; [split; [assumption|] | assumption].
    intros x Hx. apply (In_nth _ _ 0) in Hx as [k [Hk <-]]. specialize (Hr k ltac:(lia)). lia.
Qed.

Lemma perm_inj n q : perm n q -> forall j k, (j < n)%nat -> (k < n)%nat -> nth j q 0 = nth k q 0 -> j = k.
Proof. intros [Hl [_ Hn]] j k Hj Hk. rewrite (NoDup_nth q 0) in Hn. apply Hn; lia. Qed.

Lemma find_pos_spec m q : In m q -> (find_pos m q < length q)%nat /\ nth (find_pos m q) q 0 = m.
Proof.
  induction q as [|x t IH]; simpl; [contradiction|]. intros H.
  destruct (Z.eqb_spec x m) as [->|Hne]; [split; [lia | reflexivity]|].
  destruct H as [H|H]; [contradiction|]. destruct (IH H). split; [lia | assumption].
Qed.

Lemma perm_surj n q : perm n q -> forall m, (m < n)%nat ->
  (find_pos (Z.of_nat m) q < n)%nat /\ nth (find_pos (Z.of_nat m) q) q 0 = Z.of_nat m.
Proof.
  intros [Hl [Hr Hn]] m Hm.
  assert (Hin : In (Z.of_nat m) q).
  { apply (NoDup_length_incl Hn (l' := zs n)).
    - rewrite zs_length. lia.
    - intros x Hx. apply (In_nth _ _ 0) in Hx as [k [Hk <-]]. apply in_zs. apply Hr. lia.
    - apply in_zs. lia. }
  destruct (find_pos_spec _ _ Hin). split; [lia | assumption].
Qed.

Lemma find_pos_nth n q k : perm n q -> (k < n)%nat -> find_pos (nth k q 0) q = k.
Proof.
  intros Hp Hk. destruct Hp as [Hl [Hr Hn]].
  assert (Hin : In (nth k q 0) q) by (apply nth_In; lia).
  destruct (find_pos_spec _ _ Hin) as [H1 H2].
  apply (perm_inj n q (conj Hl (conj Hr Hn))); [lia | assumption | assumption].
Qed.

(* position actually written by scatter for an in-range signed axis *)
Lemma at_pos_norm n a : at_pos n a = norm_ax n a.
Proof. unfold at_pos, norm_ax. destruct (a <? 0); lia. Qed.

Definition axes_perm (n : nat) (p : list Z) : Prop := perm n (map (norm_ax (Z.of_nat n)) p).

Lemma np_axes_ok_perm n p : np_axes_ok n p = true -> axes_perm n p.
Proof. unfold np_axes_ok. rewrite andb_true_iff. intros [_ H]. now apply is_permb_perm. Qed.

Lemma axes_perm_length n p : axes_perm n p -> length p = n.
Proof. intros [Hl _]. now rewrite map_length in Hl. Qed.

Lemma nth_norm n p k : (k < length p)%nat -> nth k (map (norm_ax n) p) 0 = norm_ax n (nth k p 0).
Proof.
  intros Hk. rewrite (nth_indep _ 0 (norm_ax n 0)) by now rewrite map_length. apply map_nth.
Qed.

(* the cell q_k of scatter v p holds v_k *)
Lemma scatter_nth n v p : axes_perm n p -> length v = n -> forall k, (k < n)%nat ->
  nth (Z.to_nat (nth k (map (norm_ax (Z.of_nat n)) p) 0)) (scatter v p) 0 = nth k v 0.
Proof.
  intros Hp Hv k Hk. pose proof (axes_perm_length _ _ Hp) as Hlp.
  rewrite scatter_eq, Hv, Hlp.
  assert (Hpf : forall j, (j < n)%nat -> posf p n j = Z.to_nat (nth j (map (norm_ax (Z.of_nat n)) p) 0)).
  { intros j Hj. unfold posf. rewrite nth_norm by lia. now rewrite at_pos_norm. }
  rewrite <- Hpf by assumption.
  apply (sloop_spec (posf p n) (fun k => nth k v 0) n).
  - apply repeat_length.
  - intros j Hj. apply in_seq in Hj. rewrite Hpf by lia. destruct Hp as [_ [Hr _]]. specialize (Hr j ltac:(lia)). lia.
  - apply seq_NoDup.
  - intros i j Hi Hj E. apply in_seq in Hi, Hj. rewrite !Hpf in E by lia.
    apply (perm_inj n _ Hp); try lia. destruct Hp as [_ [Hr _]].
    pose proof (Hr i ltac:(lia)). pose proof (Hr j ltac:(lia)). lia.
  - apply in_seq. lia.
Qed.

(* value of scatter at an arbitrary cell *)
Lemma scatter_at n v p : axes_perm n p -> length v = n -> forall m, (m < n)%nat ->
  nth m (scatter v p) 0 = nth (find_pos (Z.of_nat m) (map (norm_ax (Z.of_nat n)) p)) v 0.
Proof.
  intros Hp Hv m Hm. destruct (perm_surj n _ Hp m Hm) as [Hk Hq].
  rewrite <- (scatter_nth n v p Hp Hv _ Hk), Hq. f_equal. lia.
Qed.

(* ---- transpose: shape ---- *)
Lemma shape_transpose_np s axes : (match axes with Some p => length p = length s | None => True end) ->
  shape_transpose s axes = np_transpose_shape s axes.
Proof.
  destruct axes as [p|]; simpl; intros Hl; [|apply reverse_eq_rev].
  symmetry. apply map_seq_nth_ext; [now rewrite map_length|]. intros k Hk.
  rewrite (nth_indep _ 0 (znth s (norm_ax (zlen s) 0))) by (rewrite map_length; lia).
  rewrite (map_nth (fun a => znth s (norm_ax (zlen s) a))). unfold at_neg. now rewrite at_pos_norm.
Qed.

Lemma nth_shape_transpose s p k : length p = length s -> (k < length s)%nat ->
  nth k (shape_transpose s (Some p)) 0 = znth s (norm_ax (zlen s) (nth k p 0)).
Proof. intros Hl Hk. simpl. rewrite nth_map_seq by assumption. unfold at_neg. now rewrite at_pos_norm. Qed.

(* ---- transpose: element ---- *)
Lemma transpose_index_np axes i : np_transpose_ok (length i) axes = true ->
  transpose_index axes i = np_transpose_index axes i.
Proof.
  destruct axes as [p|]; simpl; intros Hok; [|apply reverse_eq_rev].
  apply np_axes_ok_perm in Hok. unfold zs. rewrite map_map.
  apply map_seq_nth_ext; [apply scatter_length|].
  intros m Hm. unfold zlen. now apply scatter_at.
Qed.

(* ---- transpose: the source index is in bounds ---- *)
Lemma transpose_inb axes s i : np_transpose_ok (length s) axes = true ->
  inb i (shape_transpose s axes) -> inb (transpose_index axes i) s.
Proof.
  destruct axes as [p|]; simpl; intros Hok Hi.
  - apply np_axes_ok_perm in Hok. pose proof (axes_perm_length _ _ Hok) as Hlp.
    apply inb_nth in Hi as [Hli Hin]. rewrite map_length, seq_length in Hli, Hin.
    apply inb_nth. split; [now rewrite scatter_length|].
    intros m Hm. destruct (perm_surj _ _ Hok m Hm) as [Hk Hq].
    set (k := find_pos (Z.of_nat m) (map (norm_ax (Z.of_nat (length s))) p)) in *.
    rewrite (scatter_at (length s) i p Hok Hli m Hm). fold k.
    specialize (Hin k Hk). rewrite nth_map_seq in Hin by assumption.
    unfold at_neg in Hin. rewrite at_pos_norm in Hin. unfold zlen in Hin.
    rewrite <- nth_norm in Hin by lia. rewrite Hq in Hin. unfold znth in Hin.
    now rewrite Nat2Z.id in Hin.
  - rewrite reverse_eq_rev in *. rewrite <- (rev_involutive s). now apply inb_rev.
Qed.

(* ---- transpose: a bijection between the two index sets ---- *)
Definition gather_q (q : list Z) (j : list Z) : list Z :=
  map (fun k => nth (Z.to_nat (nth k q 0)) j 0) (seq 0 (length q)).

Lemma scatter_gather n p j : axes_perm n p -> length j = n ->
  scatter (gather_q (map (norm_ax (Z.of_nat n)) p) j) p = j.
Proof.
  intros Hp Hj. set (q := map (norm_ax (Z.of_nat n)) p).
  assert (Hlq : length q = n) by apply Hp.
  assert (Hlg : length (gather_q q j) = n) by (unfold gather_q; now rewrite map_length, seq_length).
  apply nth_ext with (d := 0) (d' := 0); [now rewrite scatter_length, Hlg|].
  intros m Hm. rewrite scatter_length, Hlg in Hm.
  destruct (perm_surj n _ Hp m Hm) as [Hk Hq]. fold q in Hk, Hq.
  rewrite (scatter_at n _ p Hp Hlg m Hm). fold q. unfold gather_q.
  rewrite nth_map_seq by lia. rewrite Hq. now rewrite Nat2Z.id.
Qed.

Lemma gather_scatter n p i : axes_perm n p -> length i = n ->
  gather_q (map (norm_ax (Z.of_nat n)) p) (scatter i p) = i.
Proof.
  intros Hp Hi. set (q := map (norm_ax (Z.of_nat n)) p).
  assert (Hlq : length q = n) by apply Hp.
  symmetry. unfold gather_q. rewrite Hlq. apply map_seq_nth_ext; [assumption|].
  intros k Hk. symmetry. now apply scatter_nth.
Qed.

Lemma transpose_bijection_axes s p : axes_perm (length s) p ->
  let d := shape_transpose s (Some p) in
  (forall i i', length i = length s -> length i' = length s -> scatter i p = scatter i' p -> i = i')
  /\ (forall j, inb j s -> exists i, inb i d /\ scatter i p = j).
Proof.
  intros Hp d. set (n := length s) in *. pose proof (axes_perm_length _ _ Hp) as Hlp. split.
  - intros i i' Hi Hi' E. rewrite <- (gather_scatter n p i Hp Hi), <- (gather_scatter n p i' Hp Hi'). now rewrite E.
  - intros j Hj. apply inb_nth in Hj as [Hlj Hjn]. fold n in Hlj, Hjn.
    set (q := map (norm_ax (Z.of_nat n)) p).
    exists (gather_q q j). split; [|now apply scatter_gather].
    assert (Hlq : length q = n) by apply Hp.
    apply inb_nth. unfold d. split.
    + unfold gather_q. simpl. now rewrite !map_length, !seq_length.
    + simpl. rewrite map_length, seq_length. fold n. intros k Hk.
      unfold gather_q. rewrite Hlq, !nth_map_seq by assumption.
      unfold at_neg. rewrite at_pos_norm. unfold zlen. fold n.
      rewrite <- nth_norm by lia. fold q. unfold znth. apply Hjn.
      destruct Hp as [_ [Hr _]]. specialize (Hr k Hk). fold q in Hr. lia.
Qed.

(* ---- transpose by p and then by the inverse of p ---- *)
Lemma inv_perm_perm n q : perm n q -> perm n (inv_perm q) /\
  forall k, (k < n)%nat -> nth (Z.to_nat (nth k q 0)) (inv_perm q) 0 = Z.of_nat k.
Proof.
  intros Hp. pose proof Hp as [Hl [Hr Hn]]. unfold inv_perm. rewrite Hl.
  assert (Hnth : forall m, (m < n)%nat -> nth m (map (fun m0 => Z.of_nat (find_pos m0 q)) (zs n)) 0 = Z.of_nat (find_pos (Z.of_nat m) q)).
  { intros m Hm. unfold zs. rewrite map_map. now rewrite nth_map_seq. }
  split; [split; [|split]|].
  - now rewrite map_length, zs_length.
  - intros k Hk. rewrite Hnth by assumption. destruct (perm_surj n q Hp k Hk). lia.
  - apply (NoDup_nth _ 0). rewrite map_length, zs_length. intros i j Hi Hj E.
    rewrite !Hnth in E by assumption.
    destruct (perm_surj n q Hp i Hi) as [_ Ei]. destruct (perm_surj n q Hp j Hj) as [_ Ej].
    assert (E' : find_pos (Z.of_nat i) q = find_pos (Z.of_nat j) q) by lia.
    rewrite E' in Ei. rewrite Ei in Ej. lia.
  - intros k Hk. specialize (Hr k Hk). rewrite Hnth by lia.
    rewrite Z2Nat.id by lia. now rewrite (find_pos_nth n q k Hp Hk).
Qed.

Lemma norm_ax_id n q : (forall x, In x q -> 0 <= x) -> map (norm_ax n) q = q.
Proof.
  intros H. rewrite <- (map_id q) at 2. apply map_ext_in. intros x Hx. specialize (H x Hx).
  unfold norm_ax. destruct (Z.ltb_spec x 0); lia.
Qed.

Lemma perm_axes_perm n q : perm n q -> axes_perm n q.
Proof.
  intros Hp. unfold axes_perm. rewrite norm_ax_id; [assumption|].
  intros x Hx. destruct Hp as [Hl [Hr _]]. apply (In_nth _ _ 0) in Hx as [k [Hk <-]]. specialize (Hr k ltac:(lia)). lia.
Qed.

(* the outer view transposes t = transpose(a,p) by the inverse of p: element i of the result is
   t[scatter i (inv p)] = a[scatter (scatter i (inv p)) p] = a[i], and the shape is restored *)
Lemma transpose_inverse s p i : axes_perm (length s) p -> length i = length s ->
  let q := map (norm_ax (zlen s)) p in
  shape_transpose (shape_transpose s (Some p)) (Some (inv_perm q)) = s
  /\ transpose_index (Some p) (transpose_index (Some (inv_perm q)) i) = i.
Proof.
  intros Hp Hi q. set (n := length s) in *. unfold zlen in q. fold n in q.
  pose proof (axes_perm_length _ _ Hp) as Hlp.
  assert (Hpq : perm n q) by exact Hp. assert (Hlq' : length q = n) by apply Hpq.
  destruct (inv_perm_perm n q Hp) as [Hip Hinv].
  pose proof (perm_axes_perm _ _ Hip) as Hiap.
  assert (Hnq : map (norm_ax (Z.of_nat n)) (inv_perm q) = inv_perm q).
  { apply norm_ax_id. intros x Hx. destruct Hip as [Hl [Hr _]]. apply (In_nth _ _ 0) in Hx as [k [Hk <-]]. specialize (Hr k ltac:(lia)). lia. }
  assert (Hld : length (shape_transpose s (Some p)) = n) by (simpl; now rewrite map_length, seq_length).
  split.
  - symmetry. simpl. rewrite map_length, seq_length. fold n. apply map_seq_nth_ext; [reflexivity|].
    intros m Hm. unfold at_neg. rewrite at_pos_norm. unfold zlen. rewrite map_length, seq_length. fold n.
    rewrite <- nth_norm by (destruct Hip; lia). rewrite Hnq.
    destruct Hip as [Hlq [Hrq _]]. pose proof (Hrq m Hm) as Hrm.
    unfold znth. rewrite nth_map_seq by lia.
    unfold at_neg. rewrite at_pos_norm. unfold zlen. fold n.
    rewrite <- nth_norm by lia. fold q.
    (* q[inv q[m]] = m *)
    unfold inv_perm. rewrite Hlq'.
    unfold zs. rewrite map_map, nth_map_seq by assumption. rewrite Nat2Z.id.
    destruct (perm_surj n q Hpq m Hm) as [_ E]. rewrite E. unfold znth. now rewrite Nat2Z.id.
  - simpl. apply nth_ext with (d := 0) (d' := 0); [now rewrite !scatter_length|].
    intros m Hm. rewrite !scatter_length in Hm. rewrite Hi in Hm.
    assert (Hl1 : length (scatter i (inv_perm q)) = n) by now rewrite scatter_length.
    rewrite (scatter_at n _ p Hp Hl1 m Hm). fold q.
    destruct (perm_surj n q Hp m Hm) as [Hk Hq]. set (k := find_pos (Z.of_nat m) q) in *.
    (* (scatter i (inv q))[k] where k = inv q[m]  is  i[m] *)
    assert (Ek : Z.of_nat k = nth m (inv_perm q) 0).
    { unfold inv_perm. rewrite Hlq'. unfold zs. rewrite map_map, nth_map_seq by assumption. reflexivity. }
    pose proof (scatter_nth n i (inv_perm q) Hiap Hi m Hm) as Hs. rewrite Hnq, <- Ek, Nat2Z.id in Hs. exact Hs.
Qed.

Lemma transpose_default_involutive s i :
  shape_transpose (shape_transpose s None) None = s /\ transpose_index None (transpose_index None i) = i.
Proof. simpl. rewrite !reverse_eq_rev, !rev_involutive. split; reflexivity. Qed.

(* ===================================================================== flip *)

Fixpoint flip_from (N : Z) (ax : axarg) (c : Z) (s i : list Z) : list Z :=
  match s, i with
  | n :: s', x :: i' => (if in_axis N ax c then n - 1 - x else x) :: flip_from N ax (c + 1) s' i'
  | _, _ => []
  end.

Lemma flip_steps_index_from N ax s : forall i c,
  slice_steps_index (flip_steps_from N ax c (length s)) s i = flip_from N ax c s i.
Proof.
  induction s as [|n s IH]; intros [|x i] c; simpl; try reflexivity.
  rewrite IH. destruct (in_axis N ax c); reflexivity.
Qed.

Lemma flip_index_from ax s i : flip_index ax s i = flip_from (zlen s) ax 0 s i.
Proof. unfold flip_index, flip_slices. unfold zlen at 2. rewrite Nat2Z.id. apply flip_steps_index_from. Qed.

Lemma flip_from_length N ax s : forall i c, length i = length s -> length (flip_from N ax c s i) = length s.
Proof. induction s as [|n s IH]; intros [|x i] c H; simpl in *; try discriminate; auto. Qed.

Lemma nth_flip_from N ax s : forall i c k, length i = length s -> (k < length s)%nat ->
  nth k (flip_from N ax c s i) 0 =
  if in_axis N ax (c + Z.of_nat k) then nth k s 0 - 1 - nth k i 0 else nth k i 0.
Proof.
  induction s as [|n s IH]; intros [|x i] c k Hl Hk; simpl in *; try discriminate; try lia.
  destruct k as [|k].
  - now rewrite Z.add_0_r.
  - rewrite IH by lia. replace (c + 1 + Z.of_nat k) with (c + Z.pos (Pos.of_succ_nat k)) by lia. reflexivity.
Qed.

(* the axis test of flip_slices is NumPy's: negative axes count from the end *)
Lemma in_axis_np N ax k : in_axis N ax k = np_flipped N ax k.
Proof.
  destruct ax as [|a|l]; simpl.
  - reflexivity.
  - now rewrite orb_false_r.
  - reflexivity.
Qed.

(* flip reads NumPy's element, for every axis argument (None, one axis, a list; any sign) *)
Lemma flip_index_np ax s i : length i = length s -> flip_index ax s i = np_flip_index ax s i.
Proof.
  intros Hl. rewrite flip_index_from. unfold np_flip_index. rewrite Hl.
  apply map_seq_nth_ext; [now apply flip_from_length|].
  intros k Hk. rewrite nth_flip_from by assumption. rewrite Z.add_0_l. now rewrite in_axis_np.
Qed.

Lemma flip_from_inb N ax s i : inb i s -> forall c, inb (flip_from N ax c s i) s.
Proof.
  induction 1 as [|x n i s Hx H IH]; intros c; simpl; constructor; auto.
  destruct (in_axis N ax c); lia.
Qed.

Lemma flip_inb ax s i : inb i s -> inb (flip_index ax s i) s.
Proof. intros H. rewrite flip_index_from. now apply flip_from_inb. Qed.

Lemma flip_from_involutive N ax s : forall i c, length i = length s ->
  flip_from N ax c s (flip_from N ax c s i) = i.
Proof.
  induction s as [|n s IH]; intros [|x i] c H; simpl in *; try discriminate; [reflexivity|].
  rewrite IH by lia. f_equal. destruct (in_axis N ax c); lia.
Qed.

(* flipping twice restores every index *)
Lemma flip_flip ax s i : length i = length s -> flip_index ax s (flip_index ax s i) = i.
Proof. intros H. rewrite !flip_index_from. now apply flip_from_involutive. Qed.

(* ===================================================================== reshape-based views *)

Lemma pos_count0 dst : pos dst -> count_m1 dst = O.
Proof.
  unfold count_m1. induction 1 as [|d t Hd Ht IH]; simpl; [reflexivity|].
  destruct (Z.eqb_spec d (-1)); [lia | assumption].
Qed.

(* a target without -1 whose element count matches is accepted as it is *)
Lemma reshape_to_pos src dst : pos src -> prod src < 2 ^ 64 -> dst <> [] -> pos dst -> prod dst = prod src ->
  shape_reshape src dst = Some dst.
Proof.
  intros Hs Hb Hne Hd Hp. destruct (known_all_of_count0 dst (pos_count0 dst Hd)) as [K _].
  rewrite shape_reshape_np by (auto; rewrite K; lia).
  unfold np_reshape_shape. rewrite K. replace (forallb (fun d => 1 <=? d) dst) with true by (symmetry; now apply forallb_pos).
  rewrite Nat.sub_diag. now replace (prod dst =? prod src) with true by lia.
Qed.

(* ---- atleast_nd ---- *)
Lemma shape_atleast_nd_np s nd : shape_atleast_nd s nd = np_atleast_shape s nd.
Proof.
  unfold shape_atleast_nd, np_atleast_shape, zlen. f_equal. f_equal.
  destruct (Z.ltb_spec nd (Z.of_nat (length s))); lia.
Qed.

Lemma prod_repeat1 k s : prod (repeat 1 k ++ s) = prod s /\ (pos s -> pos (repeat 1 k ++ s)).
Proof.
  induction k as [|k [IH1 IH2]]; cbn [repeat app prod].
  - split; [reflexivity | intros H; exact H].
  - split; [lia|]. intros H. constructor; [lia | exact (IH2 H)].
Qed.

Lemma atleast_nd_accept_np nd s : pos s -> prod s < 2 ^ 64 -> np_atleast_shape s nd <> [] ->
  atleast_nd_accept nd s = Some (np_atleast_shape s nd).
Proof.
  intros Hs Hb Hne. unfold atleast_nd_accept. rewrite shape_atleast_nd_np.
  destruct (prod_repeat1 (Z.to_nat nd - length s) s) as [P1 P2].
  apply reshape_to_pos; auto.
Qed.

(* ---- squeeze ---- *)
Lemma squeeze_prod s : prod (shape_squeeze s) = prod s /\ (pos s -> pos (shape_squeeze s)).
Proof.
  unfold shape_squeeze. induction s as [|x s [IH1 IH2]]; [split; [reflexivity | intros H; exact H]|].
  cbn [filter]. destruct (Z.eqb_spec x 1) as [->|Hne]; cbn [negb prod].
  - split; [lia|]. intros H. apply IH2. now inversion H.
  - split; [lia|]. intros H. inversion H; subst. constructor; [assumption | now apply IH2].
Qed.

Lemma squeeze_accept_np s : pos s -> prod s < 2 ^ 64 -> np_squeeze_shape s <> [] ->
  squeeze_accept s = Some (np_squeeze_shape s) /\ remove_single_dims s = np_squeeze_shape s /\ squeeze_defined s = true.
Proof.
  intros Hs Hb Hne. destruct (squeeze_prod s) as [P1 P2].
  assert (R : remove_single_dims s = np_squeeze_shape s).
  { unfold remove_single_dims, np_squeeze_shape. apply filter_ext_in. intros x Hx.
    unfold pos in Hs. rewrite Forall_forall in Hs. specialize (Hs x Hx). lia. }
  split; [|split; [assumption|]].
  - unfold squeeze_accept. apply reshape_to_pos; auto.
  - unfold squeeze_defined. fold (remove_single_dims s). rewrite R. apply Nat.eqb_refl.
Qed.

Lemma zero_dim_result_refuted :
  exists s, pos s /\ np_squeeze_shape s = [] /\ np_reshape_shape s [] = Some [] /\ squeeze_accept s = None /\ reshape_accept [] s = None.
Proof. exists [1; 1]. repeat split; try reflexivity. repeat constructor; lia. Qed.

(* ---- expand_dims ---- *)
Lemma normalize_axes_ok axes N : forallb (fun a => (- N <=? a) && (a <? N)) axes = true ->
  normalize_axes axes N = Some (map (norm_ax N) axes).
Proof.
  induction axes as [|a t IH]; simpl; [reflexivity|]. rewrite andb_true_iff. intros [Ha Ht].
  rewrite IH by assumption. unfold normalize_axis. rewrite Ha. unfold norm_ax.
  destruct (a <? 0); do 2 f_equal; lia.
Qed.

Lemma pigeonhole (l : list Z) lo hi : NoDup l -> (forall a, In a l -> lo <= a < hi) -> Z.of_nat (length l) <= Z.max 0 (hi - lo).
Proof.
  intros Hn Hr.
  assert (Hm : NoDup (map (fun a => a - lo) l)).
  { apply FinFun.Injective_map_NoDup; [|assumption]. intros a b. lia. }
  assert (Hi : incl (map (fun a => a - lo) l) (zs (Z.to_nat (hi - lo)))).
  { intros x Hx. apply in_map_iff in Hx as [a [<- Ha]]. apply in_zs. specialize (Hr a Ha). lia. }
  pose proof (NoDup_incl_length Hm Hi) as H. rewrite map_length, zs_length in H. lia.
Qed.

Definition cnt (f : Z -> bool) (l : list Z) : Z := zlen (filter f l).

Lemma cnt_cons f a l : cnt f (a :: l) = (if f a then 1 else 0) + cnt f l.
Proof. unfold cnt, zlen. cbn [filter]. destruct (f a); cbn [length]; lia. Qed.

Lemma cnt_lt_succ na c : NoDup na ->
  count_lt na (c + 1) = count_lt na c + (if existsb (Z.eqb c) na then 1 else 0).
Proof.
  unfold count_lt. fold (cnt (fun a => a <? c + 1) na). fold (cnt (fun a => a <? c) na).
  induction 1 as [|a l Ha Hl IH]; [reflexivity|]. rewrite !cnt_cons, IH. simpl.
  destruct (Z.eqb_spec c a) as [->|Hne]; simpl.
  - assert (E : existsb (Z.eqb a) l = false).
    { apply Bool.not_true_is_false. intros H. apply existsb_exists in H as [y [Hy E]]. apply Z.eqb_eq in E. subst. contradiction. }
    rewrite E. destruct (Z.ltb_spec a (a + 1)); destruct (Z.ltb_spec a a); lia.
  - destruct (Z.ltb_spec a (c + 1)); destruct (Z.ltb_spec a c); destruct (existsb (Z.eqb c) l); lia.
Qed.

Lemma cnt_ge_succ na c : NoDup na ->
  cnt (fun a => c <=? a) na = cnt (fun a => c + 1 <=? a) na + (if existsb (Z.eqb c) na then 1 else 0).
Proof.
  induction 1 as [|a l Ha Hl IH]; [reflexivity|]. rewrite !cnt_cons, IH. simpl.
  destruct (Z.eqb_spec c a) as [->|Hne]; simpl.
  - assert (E : existsb (Z.eqb a) l = false).
    { apply Bool.not_true_is_false. intros H. apply existsb_exists in H as [y [Hy E]]. apply Z.eqb_eq in E. subst. contradiction. }
    rewrite E. destruct (Z.leb_spec a a); destruct (Z.leb_spec (a + 1) a); lia.
  - destruct (Z.leb_spec c a); destruct (Z.leb_spec (c + 1) a); destruct (existsb (Z.eqb c) l); lia.
Qed.

Lemma count_lt_le na c : NoDup na -> (forall a, In a na -> 0 <= a) -> 0 <= c -> 0 <= count_lt na c <= c.
Proof.
  intros Hn Hr Hc. unfold count_lt, zlen. split; [lia|].
  assert (H := pigeonhole (filter (fun a => a <? c) na) 0 c (NoDup_filter _ Hn)).
  rewrite Z.sub_0_r, Z.max_r in H by lia. apply H.
  intros a Ha. apply filter_In in Ha as [Ha1 Ha2]. specialize (Hr a Ha1). lia.
Qed.

Lemma skipn_hd (s : list Z) k : skipn k s = match skipn k s with [] => [] | _ :: _ => nth k s 0 :: skipn (S k) s end.
Proof.
  revert s. induction k as [|k IH]; intros [|x s]; simpl; try reflexivity. apply IH.
Qed.

Lemma skipn_nil_nth (s : list Z) k : skipn k s = [] -> nth k s 0 = 0 /\ skipn (S k) s = [].
Proof.
  revert s. induction k as [|k IH]; intros [|x s]; simpl; intros H; try discriminate.
  - split; reflexivity.
  - split; reflexivity.
  - apply IH. exact H.
Qed.

(* the loop of shape_expand_dims computes NumPy's position formula *)
Lemma expand_walk_formula s na : NoDup na -> (forall a, In a na -> 0 <= a) -> forall fuel c, 0 <= c ->
  expand_walk fuel c na (skipn (Z.to_nat (c - count_lt na c)) s) =
  map (fun p => if existsb (Z.eqb p) na then 1 else znth s (p - count_lt na p)) (map (fun k => c + Z.of_nat k) (seq 0 fuel)).
Proof.
  intros Hn Hr. induction fuel as [|f IH]; intros c Hc; [reflexivity|].
  pose proof (count_lt_le na c Hn Hr Hc) as Hle.
  cbn [expand_walk seq map]. rewrite Z.add_0_r.
  assert (Hshift : map (fun k => c + Z.of_nat k) (seq 1 f) = map (fun k => c + 1 + Z.of_nat k) (seq 0 f)).
  { rewrite <- seq_shift, map_map. apply map_ext. intros k. lia. }
  rewrite Hshift. specialize (IH (c + 1) ltac:(lia)). rewrite cnt_lt_succ in IH by assumption.
  destruct (existsb (Z.eqb c) na) eqn:E.
  - f_equal. rewrite <- IH. do 2 f_equal. lia.
  - rewrite Z.add_0_r in IH.
    replace (Z.to_nat (c + 1 - count_lt na c)) with (S (Z.to_nat (c - count_lt na c))) in IH by lia.
    set (k := Z.to_nat (c - count_lt na c)) in *.
    assert (Ez : znth s (c - count_lt na c) = nth k s 0) by reflexivity. rewrite Ez.
    destruct (skipn k s) as [|h t] eqn:Es.
    + destruct (skipn_nil_nth s k Es) as [E0 E1]. rewrite E0. f_equal. rewrite <- IH, E1. reflexivity.
    + rewrite skipn_hd in Es. destruct (skipn k s); [discriminate|]. injection Es as <- <-. f_equal. apply IH.
Qed.

Lemma existsb_norm_in N axes p : existsb (Z.eqb p) (map (norm_ax N) axes) = existsb (Z.eqb p) (map (norm_ax N) axes).
Proof. reflexivity. Qed.

Definition expand_ok_prop (n : nat) (ax : axarg) : Prop :=
  let N := Z.of_nat n + zlen (axes_of ax) in
  let na := map (norm_ax N) (axes_of ax) in
  normalize_axes (axes_of ax) N = Some na /\ NoDup na /\ (forall a, In a na -> 0 <= a < N) /\ axes_of ax <> [].

Lemma np_expand_dims_ok_prop n ax : np_expand_dims_ok n ax = true -> expand_ok_prop n ax.
Proof.
  unfold np_expand_dims_ok, expand_ok_prop. rewrite !andb_true_iff, negb_true_iff, Nat.eqb_neq, nodupb_NoDup.
  intros [[Hr Hn] Hne]. split; [now apply normalize_axes_ok|]. split; [assumption|]. split.
  - intros a Ha. apply in_map_iff in Ha as [x [<- Hx]]. rewrite forallb_forall in Hr. specialize (Hr x Hx).
    unfold norm_ax. destruct (Z.ltb_spec x 0); lia.
  - intros E. apply Hne. now rewrite E.
Qed.

Lemma shape_expand_dims_np s ax : np_expand_dims_ok (length s) ax = true ->
  shape_expand_dims s ax = np_expand_dims_shape s ax /\ expand_dims_defined ax s = true.
Proof.
  intros Hok. apply np_expand_dims_ok_prop in Hok as [Hna [Hn [Hr _]]].
  unfold shape_expand_dims, np_expand_dims_shape, expand_dims_defined.
  change (zlen s) with (Z.of_nat (length s)). rewrite Hna.
  split; [|now apply nodupb_NoDup].
  set (N := Z.of_nat (length s) + zlen (axes_of ax)) in *. set (na := map (norm_ax N) (axes_of ax)) in *.
  assert (Hr0 : forall a, In a na -> 0 <= a) by (intros a Ha; specialize (Hr a Ha); lia).
  pose proof (expand_walk_formula s na Hn Hr0 (Z.to_nat N) 0 ltac:(lia)) as H.
  assert (E0 : count_lt na 0 = 0).
  { pose proof (count_lt_le na 0 Hn Hr0 ltac:(lia)). lia. }
  rewrite E0 in H. simpl in H. rewrite H. unfold zrange, zs. f_equal.
Qed.

(* the walk uses up the source shape exactly: same product, positivity, same non-unit extents *)
Lemma expand_walk_consumes na : NoDup na -> forall fuel c sh,
  (forall a, In a na -> a < c + Z.of_nat fuel) ->
  zlen sh + cnt (fun a => c <=? a) na = Z.of_nat fuel ->
  prod (expand_walk fuel c na sh) = prod sh
  /\ (pos sh -> pos (expand_walk fuel c na sh))
  /\ shape_squeeze (expand_walk fuel c na sh) = shape_squeeze sh.
Proof.
  intros Hn. induction fuel as [|f IH]; intros c sh Hhi Hcnt.
  - destruct sh as [|z sh]; [simpl; auto|]. exfalso. unfold cnt, zlen in Hcnt. cbn [length] in Hcnt. lia.
  - cbn [expand_walk]. rewrite (cnt_ge_succ na c Hn) in Hcnt.
    destruct (existsb (Z.eqb c) na) eqn:E.
    + destruct (IH (c + 1) sh) as [I1 [I2 I3]]; [intros a Ha; specialize (Hhi a Ha); lia | lia |].
      split; [cbn [prod]; lia|]. split; [intros H; constructor; [lia | exact (I2 H)]|].
      unfold shape_squeeze in *. simpl. exact I3.
    + destruct sh as [|h t].
      * exfalso. rewrite Z.add_0_r in Hcnt. unfold zlen in Hcnt at 1. simpl in Hcnt.
        assert (P := pigeonhole (filter (fun a => c + 1 <=? a) na) (c + 1) (c + Z.of_nat (S f)) (NoDup_filter _ Hn)).
        unfold cnt, zlen in Hcnt. rewrite Z.max_r in P by lia.
        assert (Z.of_nat (length (filter (fun a => c + 1 <=? a) na)) <= c + Z.of_nat (S f) - (c + 1)).
        { apply P. intros a Ha. apply filter_In in Ha as [Ha1 Ha2]. specialize (Hhi a Ha1). lia. }
        lia.
      * destruct (IH (c + 1) t) as [I1 [I2 I3]]; [intros a Ha; specialize (Hhi a Ha); lia | unfold cnt, zlen in *; cbn [length] in Hcnt; lia |].
        split; [cbn [prod]; lia|]. split; [intros H; inversion H as [|? ? Hh Ht]; subst; constructor; [exact Hh | exact (I2 Ht)]|].
        unfold shape_squeeze in *. simpl. destruct (h =? 1); simpl; now rewrite I3.
Qed.

Lemma filter_all {A} (f : A -> bool) l : (forall a, In a l -> f a = true) -> filter f l = l.
Proof.
  induction l as [|x l IH]; simpl; intros H; [reflexivity|].
  rewrite (H x (or_introl eq_refl)). f_equal. apply IH. intros a Ha. apply H. now right.
Qed.

Lemma expand_dims_consumes s ax : np_expand_dims_ok (length s) ax = true ->
  prod (shape_expand_dims s ax) = prod s /\ (pos s -> pos (shape_expand_dims s ax))
  /\ shape_squeeze (shape_expand_dims s ax) = shape_squeeze s /\ shape_expand_dims s ax <> [].
Proof.
  intros Hok. apply np_expand_dims_ok_prop in Hok as [Hna [Hn [Hr Hne]]].
  unfold shape_expand_dims. change (zlen s) with (Z.of_nat (length s)). rewrite Hna.
  set (N := Z.of_nat (length s) + zlen (axes_of ax)) in *. set (na := map (norm_ax N) (axes_of ax)) in *.
  assert (HN : 0 < N) by (unfold N, zlen; destruct (axes_of ax); [congruence | simpl; lia]).
  destruct (expand_walk_consumes na Hn (Z.to_nat N) 0 s) as [I1 [I2 I3]].
  - intros a Ha. specialize (Hr a Ha). lia.
  - assert (E : cnt (fun a => 0 <=? a) na = zlen na).
    { unfold cnt. f_equal. apply filter_all. intros a Ha. specialize (Hr a Ha). lia. }
    rewrite E. unfold na, zlen. rewrite map_length. unfold N, zlen. lia.
  - repeat split; auto. destruct (Z.to_nat N) eqn:EN; [lia|]. cbn [expand_walk].
    destruct (existsb (Z.eqb 0) na); [discriminate|]. destruct s; discriminate.
Qed.

Lemma expand_dims_accept_np ax s : pos s -> prod s < 2 ^ 64 -> np_expand_dims_ok (length s) ax = true ->
  expand_dims_accept ax s = Some (np_expand_dims_shape s ax).
Proof.
  intros Hs Hb Hok. destruct (shape_expand_dims_np s ax Hok) as [E _].
  destruct (expand_dims_consumes s ax Hok) as [P1 [P2 [_ P4]]].
  unfold expand_dims_accept. rewrite <- E. apply reshape_to_pos; auto.
Qed.

(* squeeze after expand_dims: the shape is the squeezed source shape (the source shape itself
   when it has no unit extents) and every index is read from itself *)
Lemma squeeze_expand_dims ax s i : pos s -> prod s < 2 ^ 64 -> np_expand_dims_ok (length s) ax = true ->
  shape_squeeze s = s -> s <> [] -> inb i s ->
  let d1 := np_expand_dims_shape s ax in
  expand_dims_accept ax s = Some d1 /\ squeeze_accept d1 = Some s
  /\ reshape_index s d1 (reshape_index d1 s i) = i.
Proof.
  intros Hs Hb Hok Hsq Hne Hi d1.
  destruct (shape_expand_dims_np s ax Hok) as [E _].
  destruct (expand_dims_consumes s ax Hok) as [P1 [P2 [P3 P4]]]. rewrite E in *. fold d1 in P1, P2, P3, P4.
  split; [now apply expand_dims_accept_np|]. split.
  - unfold squeeze_accept. rewrite P3, Hsq. apply reshape_to_pos; auto; lia.
  - apply reshape_roundtrip; auto.
Qed.

(* ===================================================================== swapaxes *)

Lemma swap_pos_invol m1 m2 k : swap_pos m1 m2 (swap_pos m1 m2 k) = k.
Proof.
  unfold swap_pos.
  destruct (Nat.eqb_spec k m1); destruct (Nat.eqb_spec k m2); subst;
    repeat match goal with |- context [Nat.eqb ?a ?b] => destruct (Nat.eqb_spec a b) end; congruence.
Qed.

Lemma swap_pos_lt m1 m2 k n : (m1 < n)%nat -> (m2 < n)%nat -> (k < n)%nat -> (swap_pos m1 m2 k < n)%nat.
Proof. unfold swap_pos. intros. destruct (k =? m1)%nat; [assumption|]. destruct (k =? m2)%nat; assumption. Qed.

Lemma normalize_axis_ok a N : (- N <=? a) && (a <? N) = true ->
  normalize_axis a N = Some (norm_ax N a) /\ 0 <= norm_ax N a < N.
Proof.
  intros H. unfold normalize_axis, norm_ax. rewrite H. apply andb_prop in H as [H1 H2].
  destruct (Z.ltb_spec a 0); split; try (f_equal; lia); lia.
Qed.

Lemma swapaxes_order_spec n a1 a2 : np_swapaxes_ok n a1 a2 = true ->
  let N := Z.of_nat n in
  let m1 := Z.to_nat (norm_ax N a1) in let m2 := Z.to_nat (norm_ax N a2) in
  swapaxes_to_transpose N a1 a2 = map (fun k => Z.of_nat (swap_pos m1 m2 k)) (seq 0 n)
  /\ (m1 < n)%nat /\ (m2 < n)%nat.
Proof.
  intros H. cbv zeta. set (N := Z.of_nat n). set (m1 := Z.to_nat (norm_ax N a1)). set (m2 := Z.to_nat (norm_ax N a2)).
  unfold np_swapaxes_ok in H. cbv zeta in H. fold N in H.
  assert (H1 : (- N <=? a1) && (a1 <? N) = true) by (destruct (- N <=? a1), (a1 <? N); simpl in *; congruence).
  assert (H2 : (- N <=? a2) && (a2 <? N) = true) by (destruct (- N <=? a1), (a1 <? N), (- N <=? a2), (a2 <? N); simpl in *; congruence).
  destruct (normalize_axis_ok a1 N H1) as [E1 R1]. destruct (normalize_axis_ok a2 N H2) as [E2 R2].
  assert (L1 : (m1 < n)%nat) by (unfold m1, N in *; lia). assert (L2 : (m2 < n)%nat) by (unfold m2, N in *; lia).
  split; [|split; assumption].
  unfold swapaxes_to_transpose. rewrite E1, E2. fold m1 m2.
  assert (Hlr : length (zrange N) = n) by (unfold zrange, N; now rewrite zs_length, Nat2Z.id).
  apply map_seq_nth_ext; [now rewrite !upd_length|].
  intros k Hk. rewrite !nth_upd by (rewrite ?upd_length; lia).
  unfold znth. fold m1 m2. unfold zrange. replace (Z.to_nat N) with n by (unfold N; lia). rewrite !nth_zs by lia. unfold swap_pos.
  destruct (Nat.eqb_spec k m2); destruct (Nat.eqb_spec k m1); try reflexivity; lia.
Qed.

Lemma swap_perm n m1 m2 : (m1 < n)%nat -> (m2 < n)%nat ->
  perm n (map (fun k => Z.of_nat (swap_pos m1 m2 k)) (seq 0 n)).
Proof.
  intros L1 L2. split; [now rewrite map_length, seq_length|]. split.
  - intros k Hk. rewrite nth_map_seq by assumption. pose proof (swap_pos_lt m1 m2 k n L1 L2 Hk). lia.
  - apply (NoDup_nth _ 0). rewrite map_length, seq_length. intros i j Hi Hj E.
    rewrite !nth_map_seq in E by assumption. apply Nat2Z.inj in E.
    rewrite <- (swap_pos_invol m1 m2 i), <- (swap_pos_invol m1 m2 j). now rewrite E.
Qed.

(* swapaxes = transpose by the transposition of the two normalised axes: NumPy's shape and element *)
Lemma swapaxes_np a1 a2 s i : np_swapaxes_ok (length s) a1 a2 = true -> length i = length s ->
  swapaxes_accept a1 a2 s = Some (np_swap s a1 a2)
  /\ swapaxes_index a1 a2 s i = np_swap i a1 a2
  /\ swapaxes_defined a1 a2 s = true
  /\ axes_perm (length s) (swapaxes_to_transpose (zlen s) a1 a2).
Proof.
  intros Hok Hi. set (n := length s) in *.
  destruct (swapaxes_order_spec n a1 a2 Hok) as [Eo [L1 L2]]. cbv zeta in Eo.
  set (m1 := Z.to_nat (norm_ax (Z.of_nat n) a1)) in *. set (m2 := Z.to_nat (norm_ax (Z.of_nat n) a2)) in *.
  set (sg := map (fun k => Z.of_nat (swap_pos m1 m2 k)) (seq 0 n)) in *.
  pose proof (swap_perm n m1 m2 L1 L2) as Hp. fold sg in Hp.
  pose proof (perm_axes_perm _ _ Hp) as Hap.
  assert (Hnq : map (norm_ax (Z.of_nat n)) sg = sg).
  { apply norm_ax_id. intros x Hx. destruct Hp as [Hl [Hr _]]. apply (In_nth _ _ 0) in Hx as [k [Hk <-]]. specialize (Hr k ltac:(lia)). lia. }
  unfold swapaxes_accept, swapaxes_index, swapaxes_defined, zlen. fold n. rewrite Eo. fold sg.
  split; [|split; [|split]].
  - f_equal. simpl. fold n. unfold np_swap, zlen. fold n m1 m2. apply map_ext_in. intros k Hk. apply in_seq in Hk.
    unfold sg. rewrite nth_map_seq by lia. unfold at_neg, at_pos, znth, zlen.
    destruct (Z.ltb_spec (Z.of_nat (swap_pos m1 m2 k)) 0); [lia|]. now rewrite Nat2Z.id.
  - unfold np_swap, zlen. rewrite Hi. fold n m1 m2. apply map_seq_nth_ext; [now rewrite scatter_length|].
    intros m Hm. rewrite (scatter_at n i sg Hap Hi m Hm), Hnq. f_equal.
    pose proof (swap_pos_lt m1 m2 m n L1 L2 Hm) as Hs.
    rewrite <- (find_pos_nth n sg (swap_pos m1 m2 m) Hp Hs). f_equal.
    unfold sg. rewrite nth_map_seq by assumption. now rewrite swap_pos_invol.
  - unfold np_swapaxes_ok in Hok. fold n in Hok.
    assert (H1 : (- Z.of_nat n <=? a1) && (a1 <? Z.of_nat n) = true) by (destruct (- Z.of_nat n <=? a1), (a1 <? Z.of_nat n); simpl in *; congruence).
    assert (H2 : (- Z.of_nat n <=? a2) && (a2 <? Z.of_nat n) = true) by (destruct (- Z.of_nat n <=? a1), (a1 <? Z.of_nat n), (- Z.of_nat n <=? a2), (a2 <? Z.of_nat n); simpl in *; congruence).
    destruct (normalize_axis_ok a1 _ H1) as [-> _]. destruct (normalize_axis_ok a2 _ H2) as [-> _]. reflexivity.
  - exact Hap.
Qed.

(* ===================================================================== the views permute the source elements *)

Lemma NoDup_map_inj_in {A B} (f : A -> B) l : NoDup l ->
  (forall x y, In x l -> In y l -> f x = f y -> x = y) -> NoDup (map f l).
Proof.
  induction 1 as [|a l Ha Hl IH]; intros Hinj; simpl; constructor.
  - intros Hin. apply in_map_iff in Hin as [y [E Hy]]. apply Ha.
    rewrite (Hinj a y); auto; [now left | now right].
  - apply IH. intros x y Hx Hy. apply Hinj; now right.
Qed.

Lemma shape_transpose_pos s axes : pos s -> np_transpose_ok (length s) axes = true -> pos (shape_transpose s axes).
Proof.
  intros Hs Hok. destruct axes as [p|]; simpl in *.
  - apply np_axes_ok_perm in Hok. pose proof (axes_perm_length _ _ Hok) as Hlp.
    apply pos_nth. rewrite map_length, seq_length. intros k Hk. rewrite nth_map_seq by assumption.
    unfold at_neg. rewrite at_pos_norm. unfold zlen. rewrite <- nth_norm by lia.
    destruct Hok as [_ [Hr _]]. specialize (Hr k Hk). unfold znth.
    rewrite pos_nth in Hs. apply Hs. lia.
  - rewrite reverse_eq_rev. now apply pos_rev.
Qed.

(* reading the whole result through the view visits every source index exactly once *)
Lemma transpose_permutes s axes : pos s -> np_transpose_ok (length s) axes = true ->
  Permutation (map (transpose_index axes) (lex_enum (shape_transpose s axes))) (lex_enum s).
Proof.
  intros Hs Hok. pose proof (shape_transpose_pos s axes Hs Hok) as Hd.
  assert (Hinj : forall i i', inb i (shape_transpose s axes) -> inb i' (shape_transpose s axes) ->
                   transpose_index axes i = transpose_index axes i' -> i = i').
  { intros i i' Hi Hi' E. apply inb_length in Hi, Hi'.
    destruct axes as [p|]; simpl in *.
    - apply np_axes_ok_perm in Hok. rewrite map_length, seq_length in Hi, Hi'.
      now apply (proj1 (transpose_bijection_axes s p Hok)).
    - rewrite !reverse_eq_rev in E. now apply rev_inj. }
  apply NoDup_Permutation.
  - apply NoDup_map_inj_in; [apply NoDup_lex_enum|].
    intros x y Hx Hy. apply in_lex_enum in Hx, Hy; auto.
  - apply NoDup_lex_enum.
  - intros j. rewrite in_map_iff, (in_lex_enum s Hs). split.
    + intros [i [<- Hi]]. apply in_lex_enum in Hi; [|assumption]. now apply transpose_inb.
    + intros Hj. destruct axes as [p|].
      * pose proof Hok as Hok'. simpl in Hok'. apply np_axes_ok_perm in Hok'.
        destruct (proj2 (transpose_bijection_axes s p Hok') j Hj) as [i [Hi E]].
        exists i. split; [exact E | now apply in_lex_enum].
      * exists (rev j). simpl. rewrite !reverse_eq_rev, rev_involutive. split; [reflexivity|].
        apply in_lex_enum; [now apply pos_rev | now apply inb_rev].
Qed.

(* reshape (hence flatten, expand_dims, squeeze, atleast_nd) enumerates the source in C order *)
Lemma reshape_enumerates src d : pos src -> pos d -> prod d = prod src ->
  map (reshape_index src d) (lex_enum d) = lex_enum src.
Proof.
  intros Hs Hd Hp. rewrite <- (ndindex_is_lex_enum d Hd), <- (ndindex_is_lex_enum src Hs), map_map.
  unfold ndindex_size. rewrite !product_eq_prod, Hp. apply map_ext_in. intros k Hk.
  unfold zrange in Hk. apply in_zs in Hk. pose proof (prod_pos _ Hs).
  unfold reshape_index, ndindex. rewrite off_unrav by (auto; lia). reflexivity.
Qed.

(* ===================================================================== in-bounds lemmas (cited by C02) *)

(* every reshape-based view reads inside a source with positive extents, whatever the target *)
Lemma reshape_index_inb src d i : pos src -> inb (reshape_index src d i) src.
Proof. intros Hs. unfold reshape_index. now apply unrav_inb. Qed.

Lemma flatten_inb src d i : flatten_accept src = Some d -> pos src -> inb i d -> inb (reshape_index src d i) src.
Proof. intros _ Hs _. now apply reshape_index_inb. Qed.
Lemma expand_dims_inb ax src d i : expand_dims_accept ax src = Some d -> pos src -> inb i d -> inb (reshape_index src d i) src.
Proof. intros _ Hs _. now apply reshape_index_inb. Qed.
Lemma squeeze_inb src d i : squeeze_accept src = Some d -> pos src -> inb i d -> inb (reshape_index src d i) src.
Proof. intros _ Hs _. now apply reshape_index_inb. Qed.
Lemma atleast_nd_inb nd src d i : atleast_nd_accept nd src = Some d -> pos src -> inb i d -> inb (reshape_index src d i) src.
Proof. intros _ Hs _. now apply reshape_index_inb. Qed.

Lemma swapaxes_inb a1 a2 src i : np_swapaxes_ok (length src) a1 a2 = true -> pos src ->
  inb i (shape_transpose src (Some (swapaxes_to_transpose (zlen src) a1 a2))) -> inb (swapaxes_index a1 a2 src i) src.
Proof.
  intros Hok _ Hi. pose proof (inb_length _ _ Hi) as Hl. simpl in Hl. rewrite map_length, seq_length in Hl.
  destruct (swapaxes_np a1 a2 src i Hok Hl) as [_ [_ [_ Hap]]].
  unfold swapaxes_index.
  apply (transpose_inb (Some (swapaxes_to_transpose (zlen src) a1 a2)) src i); [|assumption].
  simpl. unfold np_axes_ok. apply andb_true_iff. split.
  - apply forallb_forall. intros a Ha. destruct Hap as [Hlq [Hr _]]. rewrite map_length in Hlq.
    apply (In_nth _ _ 0) in Ha as [k [Hk <-]]. specialize (Hr k ltac:(lia)). rewrite nth_norm in Hr by lia.
    unfold norm_ax in Hr. destruct (Z.ltb_spec (nth k (swapaxes_to_transpose (zlen src) a1 a2) 0) 0); lia.
  - now apply is_permb_perm.
Qed.

(* moveaxis: whenever the order it builds is a permutation the transpose facts apply *)
Lemma moveaxis_inb sa da src d i : moveaxis_accept sa da src = Some d ->
  (forall order, moveaxis_to_transpose (zlen src) sa da = Some order -> np_axes_ok (length src) order = true) ->
  pos src -> inb i d -> inb (moveaxis_index sa da src i) src.
Proof.
  unfold moveaxis_accept, moveaxis_index. destruct (moveaxis_to_transpose (zlen src) sa da) as [order|]; [|discriminate].
  intros H Hperm _ Hi. injection H as <-. apply (transpose_inb (Some order) src i); [|assumption].
  simpl. now apply Hperm.
Qed.

(* ===================================================================== moveaxis: all arguments, dimension <= 5
   The order moveaxis builds depends on the dimension and the axis lists only (not on the
   extents), so for a bounded dimension the argument space is finite: it is swept by
   computation over every pair of repetition-free axis lists, and negative spellings are
   reduced to it by the normalisation lemma. *)

Fixpoint inj_tuples (k : nat) (univ : list Z) : list (list Z) :=
  match k with
  | O => [[]]
  | S k' => flat_map (fun t => map (fun x => x :: t) (filter (fun x => negb (existsb (Z.eqb x) t)) univ))
                     (inj_tuples k' univ)
  end.

Lemma in_inj_tuples univ l : NoDup l -> (forall x, In x l -> In x univ) -> In l (inj_tuples (length l) univ).
Proof.
  induction l as [|x t IH]; intros Hn Hi; simpl; [now left|].
  apply NoDup_cons_iff in Hn as [Hx Hn]. apply in_flat_map. exists t. split.
  - apply IH; [assumption|]. intros y Hy. apply Hi. now right.
  - apply in_map_iff. exists x. split; [reflexivity|]. apply filter_In. split; [apply Hi; now left|].
    apply negb_true_iff. apply Bool.not_true_is_false. intros H. apply existsb_exists in H as [y [Hy E]].
    apply Z.eqb_eq in E. subst. contradiction.
Qed.

Fixpoint list_eqb (a b : list Z) : bool :=
  match a, b with
  | [], [] => true
  | x :: a', y :: b' => (x =? y) && list_eqb a' b'
  | _, _ => false
  end.
Lemma list_eqb_eq a : forall b, list_eqb a b = true -> a = b.
Proof.
  induction a as [|x a IH]; intros [|y b]; simpl; intros H; try discriminate; [reflexivity|].
  apply andb_prop in H as [H1 H2]. apply Z.eqb_eq in H1. subst. f_equal. now apply IH.
Qed.

Definition moveaxis_check_one (n : nat) (src dst : list Z) : bool :=
  match moveaxis_to_transpose (Z.of_nat n) (AxList src) (AxList dst) with
  | Some o => list_eqb o (np_moveaxis_order n (AxList src) (AxList dst)) && is_permb n o
  | None => false
  end.
Definition moveaxis_check (n : nat) : bool :=
  forallb (fun k => forallb (fun src => forallb (fun dst => moveaxis_check_one n src dst)
                                               (inj_tuples k (zs n))) (inj_tuples k (zs n)))
          (seq 0 (S n)).

Lemma moveaxis_sweep : forallb moveaxis_check (seq 0 6) = true.
Proof. vm_compute. reflexivity. Qed.

Lemma moveaxis_upto5_nonneg n src dst : (n <= 5)%nat -> NoDup src -> NoDup dst -> length src = length dst ->
  (forall x, In x src -> 0 <= x < Z.of_nat n) -> (forall x, In x dst -> 0 <= x < Z.of_nat n) ->
  moveaxis_check_one n src dst = true.
Proof.
  intros Hn Hs Hd Hl Rs Rd. pose proof moveaxis_sweep as S. rewrite forallb_forall in S.
  specialize (S n ltac:(apply in_seq; lia)). unfold moveaxis_check in S. rewrite forallb_forall in S.
  assert (Hk : (length src <= n)%nat).
  { pose proof (pigeonhole src 0 (Z.of_nat n) Hs Rs). lia. }
  specialize (S (length src) ltac:(apply in_seq; lia)). rewrite forallb_forall in S.
  assert (Is : In src (inj_tuples (length src) (zs n))) by (apply in_inj_tuples; [assumption | intros x Hx; apply in_zs; auto]).
  specialize (S src Is). rewrite forallb_forall in S. apply S.
  rewrite Hl. apply in_inj_tuples; [assumption | intros x Hx; apply in_zs; auto].
Qed.

Lemma norm_range N l : forallb (fun a => (- N <=? a) && (a <? N)) l = true ->
  forall x, In x (map (norm_ax N) l) -> 0 <= x < N.
Proof.
  intros H x Hx. apply in_map_iff in Hx as [a [<- Ha]]. rewrite forallb_forall in H. specialize (H a Ha).
  unfold norm_ax. destruct (Z.ltb_spec a 0); lia.
Qed.

Lemma normalize_axes_nonneg N l : (forall x, In x l -> 0 <= x < N) -> normalize_axes l N = Some l.
Proof.
  intros H. rewrite normalize_axes_ok.
  - f_equal. apply norm_ax_id. intros x Hx. specialize (H x Hx). lia.
  - apply forallb_forall. intros x Hx. specialize (H x Hx). lia.
Qed.

(* for every dimension up to 5 and every argument NumPy accepts (single axes or lists, negative
   spellings included) moveaxis builds NumPy's axis order, and that order is a permutation *)
Lemma moveaxis_of_check n sa da : np_moveaxis_ok n sa da = true ->
  (NoDup (map (norm_ax (Z.of_nat n)) (axes_of sa)) -> NoDup (map (norm_ax (Z.of_nat n)) (axes_of da)) ->
   moveaxis_check_one n (map (norm_ax (Z.of_nat n)) (axes_of sa)) (map (norm_ax (Z.of_nat n)) (axes_of da)) = true) ->
  moveaxis_to_transpose (Z.of_nat n) sa da = Some (np_moveaxis_order n sa da)
  /\ is_permb n (np_moveaxis_order n sa da) = true.
Proof.
  intros Hok Hchk. unfold np_moveaxis_ok in Hok. cbv zeta in Hok.
  rewrite !andb_true_iff in Hok. destruct Hok as [[[[R1 R2] HL] N1] N2].
  apply Nat.eqb_eq in HL. apply nodupb_NoDup in N1, N2.
  set (N := Z.of_nat n) in *. set (src := map (norm_ax N) (axes_of sa)) in *. set (dst := map (norm_ax N) (axes_of da)) in *.
  pose proof (norm_range N _ R1) as Rs. pose proof (norm_range N _ R2) as Rd. fold src in Rs. fold dst in Rd.
  assert (E1 : moveaxis_to_transpose N sa da = moveaxis_to_transpose N (AxList src) (AxList dst)).
  { unfold moveaxis_to_transpose. cbn [axes_of]. rewrite (normalize_axes_ok _ _ R1), (normalize_axes_ok _ _ R2).
    fold src dst. now rewrite (normalize_axes_nonneg N src Rs), (normalize_axes_nonneg N dst Rd). }
  assert (E2 : np_moveaxis_order n sa da = np_moveaxis_order n (AxList src) (AxList dst)).
  { unfold np_moveaxis_order. cbv zeta. cbn [axes_of]. fold N. fold src dst.
    rewrite (norm_ax_id N src), (norm_ax_id N dst); [reflexivity | |]; intros x Hx; [apply Rd in Hx | apply Rs in Hx]; lia. }
  assert (Hl : length src = length dst) by (unfold src, dst; now rewrite !map_length).
  pose proof (Hchk N1 N2) as C. unfold moveaxis_check_one in C. fold N in C.
  rewrite E1, E2. destruct (moveaxis_to_transpose N (AxList src) (AxList dst)) as [o|]; [|discriminate].
  apply andb_prop in C as [C1 C2]. apply list_eqb_eq in C1. subst o. split; [reflexivity | assumption].
Qed.

Lemma moveaxis_upto5 n sa da : (n <= 5)%nat -> np_moveaxis_ok n sa da = true ->
  moveaxis_to_transpose (Z.of_nat n) sa da = Some (np_moveaxis_order n sa da)
  /\ is_permb n (np_moveaxis_order n sa da) = true.
Proof.
  intros Hn Hok. apply moveaxis_of_check; [assumption|]. intros N1 N2.
  unfold np_moveaxis_ok in Hok. cbv zeta in Hok. rewrite !andb_true_iff in Hok. destruct Hok as [[[[R1 R2] HL] _] _].
  apply Nat.eqb_eq in HL.
  apply moveaxis_upto5_nonneg; try assumption; [now rewrite !map_length | apply norm_range; assumption | apply norm_range; assumption].
Qed.

(* whenever moveaxis builds NumPy's order and that order is a permutation, it is NumPy's
   transpose by that order at every index *)
Lemma moveaxis_np_of_order sa da s i :
  moveaxis_to_transpose (Z.of_nat (length s)) sa da = Some (np_moveaxis_order (length s) sa da) ->
  is_permb (length s) (np_moveaxis_order (length s) sa da) = true ->
  inb i (np_transpose_shape s (Some (np_moveaxis_order (length s) sa da))) ->
  moveaxis_accept sa da s = Some (np_transpose_shape s (Some (np_moveaxis_order (length s) sa da)))
  /\ moveaxis_index sa da s i = np_transpose_index (Some (np_moveaxis_order (length s) sa da)) i
  /\ inb (moveaxis_index sa da s i) s.
Proof.
  intros E P Hi.
  set (o := np_moveaxis_order (length s) sa da) in *.
  assert (Hp : perm (length s) o) by now apply is_permb_perm.
  assert (Hlo : length o = length s) by apply Hp.
  assert (Hok' : np_transpose_ok (length s) (Some o) = true).
  { simpl. unfold np_axes_ok. apply andb_true_iff. split.
    - apply forallb_forall. intros a Ha. destruct Hp as [_ [Hr _]]. apply (In_nth _ _ 0) in Ha as [k [Hk <-]].
      specialize (Hr k ltac:(lia)). lia.
    - rewrite norm_ax_id; [assumption|]. intros a Ha. destruct Hp as [_ [Hr _]]. apply (In_nth _ _ 0) in Ha as [k [Hk <-]].
      specialize (Hr k ltac:(lia)). lia. }
  unfold moveaxis_accept, moveaxis_index, zlen. rewrite E.
  rewrite <- (shape_transpose_np s (Some o) Hlo) in Hi |- *.
  split; [reflexivity|]. pose proof (inb_length _ _ Hi) as Hli. simpl in Hli. rewrite map_length, seq_length in Hli.
  split.
  - apply (transpose_index_np (Some o) i). now rewrite Hli.
  - exact (transpose_inb (Some o) s i Hok' Hi).
Qed.

(* hence, up to dimension 5, moveaxis is NumPy's transpose by that order at every index *)
Lemma moveaxis_np_upto5 sa da s i : (length s <= 5)%nat -> np_moveaxis_ok (length s) sa da = true ->
  inb i (np_transpose_shape s (Some (np_moveaxis_order (length s) sa da))) ->
  moveaxis_accept sa da s = Some (np_transpose_shape s (Some (np_moveaxis_order (length s) sa da)))
  /\ moveaxis_index sa da s i = np_transpose_index (Some (np_moveaxis_order (length s) sa da)) i
  /\ inb (moveaxis_index sa da s i) s.
Proof.
  intros Hn Hok Hi. destruct (moveaxis_upto5 _ sa da Hn Hok) as [E P]. now apply moveaxis_np_of_order.
Qed.

(* ===================================================================== moveaxis: one source axis, one destination
   axis, EVERY dimension (the form moveaxis(a, s, d)): no sweep, a direct proof.  The library
   builds  rest ++ [0]  (rest = the other axes in order) and shifts s in at position d; NumPy's
   order walks the result positions and places s at d, the other axes in order elsewhere. *)

Definition keep_not (s : Z) := fun i : Z => negb (existsb (Z.eqb i) [s]).

Lemma keep_not_spec s i : keep_not s i = negb (i =? s).
Proof. unfold keep_not. simpl. now rewrite orb_false_r. Qed.

Lemma rest_length s n : 0 <= s ->
  length (filter (keep_not s) (zs n)) = if s <? Z.of_nat n then (n - 1)%nat else n.
Proof.
  intros Hs. induction n as [|n IH]; [simpl; destruct (s <? 0); reflexivity|].
  rewrite zs_S, filter_app, app_length, IH. cbn [filter]. rewrite keep_not_spec.
  destruct (Z.ltb_spec s (Z.of_nat n)); destruct (Z.ltb_spec s (Z.of_nat (S n))); destruct (Z.eqb_spec (Z.of_nat n) s);
    cbn [negb length]; lia.
Qed.

Lemma walk_after s d : forall f p rest, d < p -> length rest = f ->
  np_moveaxis_walk f p [s] [d] rest = rest.
Proof.
  induction f as [|f IH]; intros p rest Hp Hl.
  - destruct rest; [reflexivity | discriminate].
  - cbn [np_moveaxis_walk find_opt]. destruct (Z.eqb_spec d p); [lia|].
    destruct rest as [|r rest']; [discriminate|]. f_equal. apply IH; [lia|]. simpl in Hl. lia.
Qed.

Lemma walk_single s d : forall f p rest, p <= d -> (Z.to_nat (d - p) < f)%nat -> length rest = (f - 1)%nat ->
  np_moveaxis_walk f p [s] [d] rest = firstn (Z.to_nat (d - p)) rest ++ s :: skipn (Z.to_nat (d - p)) rest.
Proof.
  induction f as [|f IH]; intros p rest Hp Hf Hl; [lia|].
  cbn [np_moveaxis_walk find_opt]. destruct (Z.eqb_spec d p) as [E|E].
  - subst p. rewrite Z.sub_diag. cbn [Z.to_nat firstn skipn app nth]. f_equal.
    apply walk_after; [lia|]. lia.
  - assert (Z.to_nat (d - p) = S (Z.to_nat (d - (p + 1)))) as -> by lia.
    destruct rest as [|r rest']; [simpl in Hl; lia|]. cbn [firstn skipn app]. f_equal.
    apply IH; [lia | lia | simpl in Hl; lia].
Qed.

Lemma list_eqb_refl a : list_eqb a a = true.
Proof. induction a as [|x a IH]; simpl; [reflexivity|]. now rewrite Z.eqb_refl. Qed.

Lemma moveaxis_single_check n s d : 0 <= s < Z.of_nat n -> 0 <= d < Z.of_nat n ->
  moveaxis_check_one n [s] [d] = true.
Proof.
  intros Hs Hd. unfold moveaxis_check_one, moveaxis_to_transpose, np_moveaxis_order. cbv zeta. cbn [axes_of].
  rewrite (normalize_axes_nonneg (Z.of_nat n) [s]), (normalize_axes_nonneg (Z.of_nat n) [d]);
    try (intros x [<-|[]]; lia).
  cbn [length Nat.eqb negb]. unfold zrange. rewrite Nat2Z.id.
  rewrite (norm_ax_id (Z.of_nat n) [s]), (norm_ax_id (Z.of_nat n) [d]); try (intros x [<-|[]]; lia).
  change (fun i : Z => negb (existsb (Z.eqb i) [s])) with (keep_not s).
  set (rest := filter (keep_not s) (zs n)).
  assert (Hl : length rest = (n - 1)%nat).
  { unfold rest. rewrite rest_length by lia. destruct (Z.ltb_spec s (Z.of_nat n)); lia. }
  change (argsort [d]) with [0%nat]. cbn [fold_left nth]. rewrite Hl.
  replace (n - (n - 1))%nat with 1%nat by lia. cbn [repeat].
  rewrite (walk_single s d n 0 rest) by lia. rewrite Z.sub_0_r.
  set (D := Z.to_nat d). assert (HD : (D <= n - 1)%nat) by lia.
  assert (E : insert_shift D s (rest ++ [0]) = firstn D rest ++ s :: skipn D rest).
  { unfold insert_shift. rewrite firstn_app, skipn_app, app_length, Hl. cbn [length].
    replace (D - (n - 1))%nat with 0%nat by lia. cbn [firstn skipn]. rewrite app_nil_r.
    f_equal. f_equal. rewrite firstn_app, skipn_length, Hl.
    replace (n - 1 + 1 - D - 1 - (n - 1 - D))%nat with 0%nat by lia. cbn [firstn]. rewrite app_nil_r.
    apply firstn_all2. rewrite skipn_length. lia. }
  rewrite E, list_eqb_refl. cbn [andb].
  apply is_permb_perm.
  assert (P : Permutation (s :: rest) (firstn D rest ++ s :: skipn D rest)).
  { rewrite <- (firstn_skipn D rest) at 1. apply Permutation_middle. }
  assert (Hin : forall x, In x (s :: rest) -> 0 <= x < Z.of_nat n).
  { intros x [<-|Hx]; [lia|]. apply filter_In in Hx as [Hx _]. now apply in_zs. }
  assert (Hnd : NoDup (s :: rest)).
  { constructor; [|apply NoDup_filter, NoDup_zs]. intros Hx. apply filter_In in Hx as [_ Hx].
    rewrite keep_not_spec, Z.eqb_refl in Hx. discriminate. }
  split; [|split].
  - rewrite <- (Permutation_length P). simpl. lia.
  - intros k Hk. apply Hin. apply (Permutation_in _ (Permutation_sym P)). apply nth_In.
    rewrite <- (Permutation_length P). simpl. lia.
  - exact (Permutation_NoDup P Hnd).
Qed.

Lemma moveaxis_single n sa da : length (axes_of sa) = 1%nat -> np_moveaxis_ok n sa da = true ->
  moveaxis_to_transpose (Z.of_nat n) sa da = Some (np_moveaxis_order n sa da)
  /\ is_permb n (np_moveaxis_order n sa da) = true.
Proof.
  intros H1 Hok. apply moveaxis_of_check; [assumption|]. intros _ _.
  unfold np_moveaxis_ok in Hok. cbv zeta in Hok. rewrite !andb_true_iff in Hok. destruct Hok as [[[[R1 R2] HL] _] _].
  apply Nat.eqb_eq in HL. rewrite H1 in HL.
  destruct (axes_of sa) as [|a [|? ?]]; try discriminate. destruct (axes_of da) as [|b [|? ?]]; try discriminate.
  cbn [map]. apply moveaxis_single_check; [apply (norm_range _ _ R1) | apply (norm_range _ _ R2)]; now left.
Qed.

(* ===================================================================== index::argsort (the insertion sort that
   moveaxis uses to order the destinations): for EVERY list the result is a permutation of the
   positions and the keys ascend along it *)
From Coq Require Import Sorted.

Section Argsort.
Variable key : nat -> Z.
Let R (x y : nat) : Prop := key y <= key x.     (* the reversed prefix: largest key first *)

Lemma ins_rev_perm x rl : Permutation (ins_rev key x rl) (x :: rl).
Proof.
  induction rl as [|y t IH]; cbn [ins_rev]; [reflexivity|].
  destruct (key x <? key y); [|reflexivity].
  apply perm_trans with (y :: x :: t); [now apply perm_skip | apply perm_swap].
Qed.

Lemma ins_rev_sorted x rl : StronglySorted R rl -> StronglySorted R (ins_rev key x rl).
Proof.
  induction rl as [|y t IH]; intros Hs; cbn [ins_rev]; [constructor; constructor|].
  apply StronglySorted_inv in Hs as [Ht Hy].
  destruct (Z.ltb_spec (key x) (key y)) as [Hlt|Hge].
  - constructor; [now apply IH|]. apply Forall_forall. intros z Hz.
    apply (Permutation_in _ (ins_rev_perm x t)) in Hz. destruct Hz as [<-|Hz]; [unfold R; lia|].
    rewrite Forall_forall in Hy. now apply Hy.
  - constructor; [constructor; assumption|]. constructor; [unfold R; lia|].
    rewrite Forall_forall in Hy |- *. intros z Hz. specialize (Hy z Hz). unfold R in *. lia.
Qed.

Lemma fold_ins_rev xs : forall rl, StronglySorted R rl ->
  StronglySorted R (fold_left (fun rl x => ins_rev key x rl) xs rl)
  /\ Permutation (fold_left (fun rl x => ins_rev key x rl) xs rl) (xs ++ rl).
Proof.
  induction xs as [|x xs IH]; intros rl Hs; cbn [fold_left]; [split; [assumption | reflexivity]|].
  destruct (IH _ (ins_rev_sorted x rl Hs)) as [S P]. split; [assumption|].
  apply perm_trans with (xs ++ ins_rev key x rl); [assumption|].
  apply perm_trans with (xs ++ x :: rl); [apply Permutation_app_head, ins_rev_perm|].
  symmetry. apply Permutation_middle.
Qed.

Lemma sorted_snoc (Q : nat -> nat -> Prop) l x : StronglySorted Q l -> Forall (fun y => Q y x) l ->
  StronglySorted Q (l ++ [x]).
Proof.
  induction l as [|y t IH]; intros Hs Hf; cbn [app]; [constructor; constructor|].
  apply StronglySorted_inv in Hs as [Ht Hy]. inversion Hf as [|? ? Hyx Hf']; subst.
  constructor; [now apply IH|]. apply Forall_app. split; [assumption | constructor; [assumption | constructor]].
Qed.

Lemma sorted_rev l : StronglySorted R l -> StronglySorted (fun x y => key x <= key y) (rev l).
Proof.
  induction l as [|x t IH]; intros Hs; cbn [rev]; [constructor|].
  apply StronglySorted_inv in Hs as [Ht Hx]. apply sorted_snoc; [now apply IH|].
  apply Forall_forall. intros y Hy. apply in_rev in Hy. rewrite Forall_forall in Hx. exact (Hx y Hy).
Qed.
End Argsort.

(* index::argsort returns a permutation of the positions 0..len-1 along which the keys ascend *)
Lemma argsort_sorts (a : list Z) :
  Permutation (argsort a) (seq 0 (length a))
  /\ StronglySorted (fun i j => nth i a 0 <= nth j a 0) (argsort a).
Proof.
  unfold argsort. set (key := fun k => nth k a 0).
  destruct (fold_ins_rev key (seq 0 (length a)) [] (SSorted_nil _)) as [S P]. split.
  - apply perm_trans with (fold_left (fun rl x => ins_rev key x rl) (seq 0 (length a)) []);
      [symmetry; apply Permutation_rev|]. now rewrite app_nil_r in P.
  - exact (sorted_rev key _ S).
Qed.
