(* NN.v — C17.  FAITHFUL executable model of the neural-network index arithmetic of
     include/nmtools/array/view/convnd.hpp          (conv_reshape_input / weight / reduce / bias, conv_kernel_size,
                                                     conv_window_axis, conv_sum_axes, conv_expand_spacing, conv_pad,
                                                     conv_slices and the convnd pipeline, lines 735-835)
     include/nmtools/array/index/sliding_window.hpp (shape_sliding_window, sliding_window; index-array axis arm)
     include/nmtools/array/view/expand.hpp          (index::shape_expand, index::expand; None = fill value)
     include/nmtools/array/index/pad.hpp            (shape_pad, pad; None = fill value)
     include/nmtools/array/index/pooling.hpp        (shape_pool2d, slice_pool2d) and view/pooling.hpp (pool2d_t)
   and, below the line "Spec", the PyTorch reference: output-extent formulas and direct nested loops over Z.

   Elements are integers (Z): the property demands exact equality for integer-valued data; floating point
   (libm, rounding) is outside this model.  Every run-time loop of the headers is a fold over the same index range;
   `at(x,-i)` (negative = from the end) is [zat]/[zset].  [None] as a result means "the C++ unwraps an empty
   maybe / reduces an empty window": undefined behaviour, observed as a trap.
   One modelling assumption: shape_pool2d divides in `float`; here the quotient is exact (valid below 2^23). *)
From NM Require Import Base Index.
Local Open Scope Z_scope.

(* ---------- signed indexing (nmtools::at with a negative index counts from the end) ---------- *)
Definition nidx (n i : Z) : Z := if i <? 0 then n + i else i.
Definition zat (l : list Z) (i : Z) : Z := znth l (nidx (zlen l) i).
Definition zset (l : list Z) (i v : Z) : list Z := upd l (Z.to_nat (nidx (zlen l) i)) v.
Definition fillz (v n : Z) : list Z := repeat v (Z.to_nat n).
(* for (i = lo; i < hi; i++) *)
Definition for_ {A} (lo hi : Z) (f : A -> Z -> A) (a : A) : A :=
  fold_left f (map (Z.add lo) (zrange (hi - lo))) a.
Definition cdiv (a b : Z) : Z := - ((- a) / b).                  (* ceiling of a / b *)
Definition zsum (l : list Z) : Z := fold_right Z.add 0 l.

(* ======================= convnd.hpp: shape helpers, loop for loop ======================= *)

(* :12  result = 1...; batched input: result[0] = N; result[-np-3] = groups; result[-np-1] = C/groups; spatial
   copied:  (N,C,sp..) -> (N,g,1,C/g,sp..) *)
Definition conv_reshape_input (src : list Z) (g np : Z) : list Z :=
  let r := fillz 1 (zlen src + 2) in
  let r := if np + 1 <? zlen src then zset r 0 (zat src 0) else r in
  let r := zset r (- np - 2 - 1) g in
  let r := zset r (- np - 2 + 1) (zat src (- np - 1) / g) in
  for_ 1 (np + 1) (fun r i => zset r (- i) (zat src (- i))) r.

(* :58  (O, C/g, k..) -> (g, O/g, C/g, k..) : group_axis = 0, outch_axis = 1 *)
Definition conv_reshape_weight (src : list Z) (g np : Z) : list Z :=
  let sd := zlen src in
  let r := fillz 1 (sd + 1) in
  let r := for_ 1 (sd - (np - 1) + 1) (fun r i => zset r (- i) (zat src (- i))) r in
  let r := for_ 0 (np - 1) (fun r i => zset r i (zat src i)) r in
  let r := zset r 1 (zat src 0 / g) in
  zset r 0 g.

(* :99  (N, g, O/g, sp..) -> (N, g * O/g, sp..) *)
Definition conv_reshape_reduce (src : list Z) (g np : Z) : list Z :=
  let r := fillz 0 (zlen src - 1) in
  let r := for_ 0 (np + 1) (fun r i => zset r (- i) (zat src (- i))) r in
  let r := zset r 0 (zat src 0) in
  zset r 1 (zat src 1 * zat src 2).

(* :128 (O) -> (O,1,..,1) *)
Definition conv_reshape_bias (src : list Z) (np : Z) : list Z :=
  let sd := zlen src in
  let r := fillz 0 (sd + np) in
  let r := for_ 0 sd (fun r i => zset r i (zat src i)) r in
  for_ 1 (sd + np) (fun r i => zset r i 1) r.

(* :159 kernel_size[i] = weight_shape[-(i+1)]     :183 window_axis[i] = -(i+1) *)
Definition conv_kernel_size (wshape : list Z) (np : Z) : list Z := map (fun i => zat wshape (- (i + 1))) (zrange np).
Definition conv_window_axis (np : Z) : list Z := map (fun i => - (i + 1)) (zrange np).
(* :206 *)
Definition conv_sum_axes (np : Z) : list Z := map (fun i => - (i + 1)) (zrange np) ++ [- (2 * np + 1)].

(* run-time argument kinds of stride / padding / dilation *)
Inductive sarg := ANone | AScalar (v : Z) | AList (l : list Z).

(* :267 spacing[i] = dilation[np-1-i] - 1  (paired with window_axis[i] = -(i+1): dilation[0] is the first plane) *)
Definition conv_expand_spacing (dil : sarg) (np : Z) : list Z :=
  match dil with
  | AList l => map (fun i => znth l (np - 1 - i) - 1) (zrange np)
  | AScalar d => map (fun _ => d - 1) (zrange np)
  | ANone => []
  end.

(* :290 onnx layout [before_0..before_{d-1}, after_0..after_{d-1}] *)
Definition conv_pad (src_dim : Z) (pad : sarg) (np : Z) : list Z :=
  let r := fillz 0 (src_dim * 2) in
  let pa := src_dim - np in
  match pad with
  | AScalar p => for_ 0 np (fun r i => zset (zset r (i + pa) p) (i + pa + src_dim) p) r
  | AList l => for_ 0 (zlen l) (fun r i => zset (zset r (i + pa) (znth l i)) (i + pa + src_dim) (znth l i)) r
  | ANone => r
  end.

(* :240 one (None,None,stride_i) per spatial axis after an Ellipsis *)
Definition conv_slices (stride : sarg) (np : Z) : list Z :=
  match stride with
  | AScalar s => map (fun _ => s) (zrange np)
  | AList l => map (fun i => znth l i) (zrange np)
  | ANone => map (fun _ => 1) (zrange np)
  end.

(* ======================= index/sliding_window.hpp (axis = index array arm) ======================= *)
Definition shape_sliding_window (src win axes : list Z) : list Z :=
  let sd := zlen src in
  let r := fold_left (fun r p => zset r (nidx sd (fst p)) (zat r (nidx sd (fst p)) - (snd p - 1))) (combine axes win) src in
  r ++ win.

(* result[i] = indices[i] (i < src_dim); result[axis[a]] += indices[a + src_dim]   (axis not normalised: at() wraps) *)
Definition sliding_window_idx (idx : list Z) (src_dim : Z) (axes : list Z) : list Z :=
  let r := firstn (Z.to_nat src_dim) idx in
  fold_left (fun r p => zset r (snd p) (zat r (snd p) + znth idx (fst p + src_dim)))
            (combine (zrange (zlen axes)) axes) r.

(* ======================= view/expand.hpp ======================= *)
Definition shape_expand (src axes spacing : list Z) : list Z :=
  let sd := zlen src in
  fold_left (fun r p => let a := nidx sd (fst p) in zset r a (zat r a + (zat r a - 1) * snd p)) (combine axes spacing) src.

(* Some src_index, or None = "return the fill value" (break on the first non-zero remainder) *)
Definition expand_idx (idx : list Z) (src_dim : Z) (axes spacing : list Z) : option (list Z) :=
  fold_left (fun acc p =>
               match acc with
               | None => None
               | Some r => let a := nidx src_dim (fst p) in let dv := snd p + 1 in
                           if 0 <? (zat r a) mod dv then None else Some (zset r a (zat r a / dv))
               end) (combine axes spacing) (Some (firstn (Z.to_nat src_dim) idx)).

(* ======================= index/pad.hpp ======================= *)
Definition shape_pad (shape pw : list Z) : option (list Z) :=
  let d := zlen shape in
  if d * 2 =? zlen pw then Some (map (fun i => znth shape i + znth pw i + znth pw (d + i)) (zrange d)) else None.
Fixpoint pad_idx_aux (idx src pw : list Z) : option (list Z) :=
  match idx, src, pw with
  | i :: idx', s :: src', p :: pw' =>
      if (i >=? s + p) || (i - p <? 0) then None
      else match pad_idx_aux idx' src' pw' with Some r => Some ((i - p) :: r) | None => None end
  | _, _, _ => Some []
  end.
Definition pad_idx (idx src pw : list Z) : option (list Z) := pad_idx_aux idx src pw.

(* ======================= views as (shape, element function) ======================= *)
Record view := mkview { vshape : list Z; vget : list Z -> Z }.

Definition v_array (s d : list Z) : view :=
  mkview s (fun i => nth (Z.to_nat (compute_offset i (compute_strides s))) d 0).

(* view::reshape: same flat position in both shapes; refused (Nothing) unless the element counts agree *)
Definition v_reshape (v : view) (dst : list Z) : option view :=
  if (product (vshape v) =? product dst) && posb dst then
    Some (mkview dst (fun i => vget v (compute_indices (compute_offset i (compute_strides dst)) (vshape v))))
  else None.

Definition v_pad (v : view) (pw : list Z) : option view :=
  match shape_pad (vshape v) pw with
  | Some s => Some (mkview s (fun i => match pad_idx i (vshape v) pw with Some j => vget v j | None => 0 end))
  | None => None
  end.

Definition v_sliding_window (v : view) (win axes : list Z) : view :=
  mkview (shape_sliding_window (vshape v) win axes)
         (fun i => vget v (sliding_window_idx i (zlen (vshape v)) axes)).

Definition v_expand (v : view) (axes spacing : list Z) : view :=
  mkview (shape_expand (vshape v) axes spacing)
         (fun i => match expand_idx i (zlen (vshape v)) axes spacing with Some j => vget v j | None => 0 end).

(* right-aligned broadcasting of two shapes (ufunc multiply / add) *)
Definition bc (x y : Z) : option Z :=
  if x =? y then Some x else if x =? 1 then Some y else if y =? 1 then Some x else None.
Fixpoint bshape_rev (a b : list Z) : option (list Z) :=
  match a, b with
  | [], _ => Some b
  | _, [] => Some a
  | x :: a', y :: b' =>
      match bshape_rev a' b', bc x y with
      | Some r, Some z => Some (z :: r)
      | _, _ => None
      end
  end.
Definition bshape (a b : list Z) : option (list Z) := option_map (@rev Z) (bshape_rev (rev a) (rev b)).
(* index of the operand with shape s for result index i: last |s| components, stretched axes read at 0 *)
Definition bidx (i s : list Z) : list Z :=
  map (fun p => if snd p =? 1 then 0 else fst p) (combine (skipn (length i - length s) i) s).
Definition v_binop (f : Z -> Z -> Z) (a b : view) : option view :=
  match bshape (vshape a) (vshape b) with
  | Some s => Some (mkview s (fun i => f (vget a (bidx i (vshape a))) (vget b (bidx i (vshape b)))))
  | None => None
  end.

(* view::sum over a list of axes, keepdims = False *)
Fixpoint merge (mask : list bool) (kept red : list Z) : list Z :=
  match mask with
  | [] => []
  | true :: m => match red with r :: red' => r :: merge m kept red' | [] => [] end
  | false :: m => match kept with k :: kept' => k :: merge m kept' red | [] => [] end
  end.
Fixpoint select (mask : list bool) (l : list Z) : list Z :=
  match mask, l with
  | b :: m, x :: l' => if b then x :: select m l' else select m l'
  | _, _ => []
  end.
Definition axes_mask (rank : Z) (axes : list Z) : list bool :=
  map (fun k => existsb (fun a => nidx rank a =? k) axes) (zrange rank).
Definition v_sum (v : view) (axes : list Z) : view :=
  let mask := axes_mask (zlen (vshape v)) axes in
  let red := select mask (vshape v) in
  mkview (select (map negb mask) (vshape v))
         (fun i => zsum (map (fun r => vget v (merge mask i r)) (lex_enum red))).

(* apply_slice(x, Ellipsis, (None,None,s_0), .., (None,None,s_{np-1})): the last |steps| axes with a positive step *)
Definition v_step_slice (v : view) (steps : list Z) : view :=
  let n := (length (vshape v) - length steps)%nat in
  let lead := firstn n (vshape v) in
  let sp := skipn n (vshape v) in
  mkview (lead ++ map (fun p => cdiv (fst p) (snd p)) (combine sp steps))
         (fun i => vget v (firstn n i ++ map (fun p => fst p * snd p) (combine (skipn n i) steps))).

Definition obind {A B} (o : option A) (f : A -> option B) : option B := match o with Some x => f x | None => None end.

(* ======================= view::convnd (convnd.hpp:735-835), stage by stage ======================= *)
Definition conv_a_weight (np : Z) (w : view) (dil : sarg) (g : Z) : option view :=
  obind (v_reshape w (conv_reshape_weight (vshape w) g np)) (fun rw =>
  match dil with
  | ANone => Some rw
  | _ => Some (v_expand rw (conv_window_axis np) (conv_expand_spacing dil np))
  end).

Definition conv_a_input (np : Z) (x : view) (pad : sarg) (g : Z) : option view :=
  obind (v_reshape x (conv_reshape_input (vshape x) g np)) (fun rx =>
  match pad with
  | ANone => Some rx
  | _ => v_pad rx (conv_pad (zlen (vshape rx)) pad np)
  end).

Definition convnd_view (np : Z) (x w : view) (bias : option view) (stride pad dil : sarg) (g : Z) : option view :=
  obind (conv_a_weight np w dil g) (fun aw =>
  obind (conv_a_input np x pad g) (fun ax =>
  let ks := conv_kernel_size (vshape aw) np in
  let wa := conv_window_axis np in
  let ww := v_sliding_window aw ks wa in
  let iw := v_sliding_window ax ks wa in
  if negb (posb (vshape iw)) then None else
  obind (v_binop Z.mul iw ww) (fun m =>
  let s := v_sum m (conv_sum_axes np) in
  obind (v_reshape s (conv_reshape_reduce (vshape s) g np)) (fun rs =>
  obind (match bias with
         | None => Some rs
         | Some b => obind (v_reshape b (conv_reshape_bias (vshape b) np)) (fun rb => v_binop Z.add rs rb)
         end) (fun ar =>
  match stride with
  | ANone => Some ar
  | _ => Some (v_step_slice ar (conv_slices stride np))
  end))))).

Definition materialize (v : view) : list Z * list Z := (vshape v, map (vget v) (lex_enum (vshape v))).

Definition convnd (np : Z) (ishape idata wshape wdata : list Z) (bias : option (list Z))
                  (stride pad dil : sarg) (g : Z) : option (list Z * list Z) :=
  option_map materialize
    (convnd_view np (v_array ishape idata) (v_array wshape wdata)
                 (option_map (fun b => v_array [zlen b] b) bias) stride pad dil g).

(* the shape the pipeline produces (same functions, no data) *)
Definition convnd_shape (np : Z) (ishape wshape : list Z) (stride pad dil : sarg) (g : Z) : option (list Z) :=
  option_map vshape (convnd_view np (v_array ishape []) (v_array wshape []) None stride pad dil g).

(* ======================= pooling ======================= *)
(* index/pooling.hpp:32  float(n + 0 - ((k-1)*1+1)) / s + 1, then constexpr_floor, or constexpr_ceil followed by
   "if ((res - 1) * stride >= n + pad) res -= 1"  (pad = 0) *)
Definition pool_extent (ceil : bool) (n k s : Z) : Z :=
  if ceil then (let o := cdiv (n - k) s + 1 in if n + 0 <=? (o - 1) * s then o - 1 else o)
  else (n - k) / s + 1.
Definition shape_pool2d (shape ks ss : list Z) (ceil : bool) : list Z :=
  let d := zlen shape in
  firstn (Z.to_nat (d - 2)) shape
  ++ [pool_extent ceil (zat shape (-2)) (zat ks (-2)) (zat ss (-2));
      pool_extent ceil (zat shape (-1)) (zat ks (-1)) (zat ss (-1))].

(* index/pooling.hpp:122  batch axes (i, i+1, 1); spatial axes (s*i, s*i + k, 1) *)
Definition slice_pool2d (idx shape ks ss : list Z) : list (Z * Z) :=
  let d := zlen shape in
  map (fun i => (znth idx i, znth idx i + 1)) (zrange (d - 2))
  ++ [(zat ss (-2) * zat idx (-2), zat ss (-2) * zat idx (-2) + zat ks (-2));
      (zat ss (-1) * zat idx (-1), zat ss (-1) * zat idx (-1) + zat ks (-1))].

(* apply_slice with (start, stop, 1), 0 <= start: Python clamping of both ends to the extent *)
Definition slice_range (n : Z) (se : Z * Z) : list Z :=
  let a := Z.min (fst se) n in let b := Z.min (snd se) n in
  map (Z.add a) (zrange (b - a)).
Fixpoint cart (l : list (list Z)) : list (list Z) :=
  match l with
  | [] => [[]]
  | r :: t => flat_map (fun i => map (cons i) (cart t)) r
  end.
(* source indices read by output element idx, in row-major order of the slice *)
Definition pool_window (idx shape ks ss : list Z) : list (list Z) :=
  cart (map (fun p => slice_range (fst p) (snd p)) (combine shape (slice_pool2d idx shape ks ss))).

Definition zmax_list (l : list Z) : option Z :=
  match l with [] => None | x :: t => Some (fold_left Z.max t x) end.

Definition valid_pool_args (shape ks ss : list Z) : bool :=
  (2 <=? zlen shape) && posb shape && (zlen ks =? 2) && (zlen ss =? 2) && posb ks && posb ss
  && (zat ks (-2) <=? zat shape (-2)) && (zat ks (-1) <=? zat shape (-1)).

Fixpoint sequence {A} (l : list (option A)) : option (list A) :=
  match l with
  | [] => Some []
  | None :: _ => None
  | Some x :: t => match sequence t with Some r => Some (x :: r) | None => None end
  end.

(* pool2d_t: one reduction of the sliced window per output element; an empty window cannot be reduced *)
Definition pool2d {R} (red : list Z -> option R) (shape data ks ss : list Z) (ceil : bool) : option (list Z * list R) :=
  if negb (valid_pool_args shape ks ss) then None else
  let dst := shape_pool2d shape ks ss ceil in
  let src := v_array shape data in
  match sequence (map (fun i => red (map (vget src) (pool_window i shape ks ss))) (lex_enum dst)) with
  | Some e => Some (dst, e)
  | None => None
  end.
Definition max_pool2d := pool2d zmax_list.
(* mean = sum / count: the model returns the exact pair; the quotient is formed by the runner *)
Definition avg_red (l : list Z) : option (Z * Z) := match l with [] => None | _ => Some (zsum l, zlen l) end.
Definition avg_pool2d := pool2d avg_red.

(* =====================================================================================================
   Spec — PyTorch reference definitions, written independently (no reshapes, no strides, no windows views)
   ===================================================================================================== *)

(* torch.nn.ConvNd: L_out = floor((L_in + 2 p - d (k - 1) - 1) / s + 1) *)
Definition conv_out_extent (n k s p d : Z) : Z := (n + 2 * p - d * (k - 1) - 1) / s + 1.

(* per-axis arguments of the spec *)
Definition spec_list (a : sarg) (dflt np : Z) : list Z :=
  match a with ANone => map (fun _ => dflt) (zrange np) | AScalar v => map (fun _ => v) (zrange np)
             | AList l => map (fun i => znth l i) (zrange np) end.

Fixpoint map5 (f : Z -> Z -> Z -> Z -> Z -> Z) (a b c d e : list Z) : list Z :=
  match a, b, c, d, e with
  | x :: a', y :: b', z :: c', u :: d', v :: e' => f x y z u v :: map5 f a' b' c' d' e'
  | _, _, _, _, _ => []
  end.

Definition conv_spec_shape (np : Z) (ishape wshape : list Z) (stride pad dil : sarg) : list Z :=
  [znth ishape 0; znth wshape 0]
  ++ map5 conv_out_extent (skipn 2 ishape) (skipn 2 wshape) (spec_list stride 1 np) (spec_list pad 0 np) (spec_list dil 1 np).

(* element of a dense array, zero outside its bounds (zero padding); position by Horner's rule *)
Definition arr_get0 (s d i : list Z) : Z := if inbb i s then nth (Z.to_nat (horner 0 i s)) d 0 else 0.

(* the group of output channel o:  o div (O / groups)   (blocked) *)
Definition spec_group (O g o : Z) : Z := o / (O / g).

(* out[n,o,pos] = bias[o] + sum_{c < C/g} sum_{kp} in0[n, group(o)*C/g + c, pos*s + kp*d - p] * w[o,c,kp] *)
Definition conv_spec_elem (np : Z) (ishape idata wshape wdata : list Z) (bias : option (list Z))
                          (stride pad dil : sarg) (g : Z) (n o : Z) (pos : list Z) : Z :=
  let O := znth wshape 0 in let Cg := znth wshape 1 in
  let ss := spec_list stride 1 np in let ps := spec_list pad 0 np in let ds := spec_list dil 1 np in
  (match bias with Some b => znth b o | None => 0 end)
  + zsum (map (fun c =>
       zsum (map (fun kp =>
          arr_get0 ishape idata (n :: (spec_group O g o * Cg + c) :: map5 (fun y s k d p => y * s + k * d - p) pos ss kp ds ps)
          * arr_get0 wshape wdata (o :: c :: kp))
        (lex_enum (skipn 2 wshape))))
     (zrange Cg)).

Definition valid_conv_args (np : Z) (ishape wshape : list Z) (bias : option (list Z)) (stride pad dil : sarg) (g : Z) : bool :=
  (zlen ishape =? np + 2) && (zlen wshape =? np + 2) && posb ishape && posb wshape && (1 <=? g)
  && (znth ishape 1 =? g * znth wshape 1) && (znth wshape 0 mod g =? 0)
  && (match bias with Some b => zlen b =? znth wshape 0 | None => true end)
  && posb (spec_list stride 1 np) && forallb (fun p => 0 <=? p) (spec_list pad 0 np) && posb (spec_list dil 1 np)
  && (match stride with AList l => zlen l =? np | _ => true end)
  && (match pad with AList l => zlen l =? np | _ => true end)
  && (match dil with AList l => zlen l =? np | _ => true end)
  && posb (conv_spec_shape np ishape wshape stride pad dil).

Definition conv_spec (np : Z) (ishape idata wshape wdata : list Z) (bias : option (list Z))
                     (stride pad dil : sarg) (g : Z) : option (list Z * list Z) :=
  if valid_conv_args np ishape wshape bias stride pad dil g then
    let s := conv_spec_shape np ishape wshape stride pad dil in
    Some (s, map (fun i => conv_spec_elem np ishape idata wshape wdata bias stride pad dil g (znth i 0) (znth i 1) (skipn 2 i))
                 (lex_enum s))
  else None.

(* the group the MODEL pairs with output channel o: read off conv_reshape_weight / conv_reshape_reduce
   ((N,O) is (N,g,O/g) in row-major order, the g axis is the group axis of the reshaped input): the leading
   coordinate of o in (g, O/g) *)
Definition model_group (O g o : Z) : Z := znth (compute_indices o [g; O / g]) 0.

(* domain on which the element theorem is claimed (and checked on every correspondence case) *)
Definition conv_dom (np : Z) (ishape wshape : list Z) (bias : option (list Z)) (stride pad dil : sarg) (g : Z) : bool :=
  valid_conv_args np ishape wshape bias stride pad dil g.

(* torch.nn.MaxPool2d / AvgPool2d (padding 0, dilation 1):  floor or ceil of (n - k)/s + 1, and in ceil mode the
   last window must start inside the input *)
Definition pool_out_spec (ceil : bool) (n k s : Z) : Z :=
  if ceil then
    let o := cdiv (n - k) s + 1 in if (o - 1) * s >=? n then o - 1 else o
  else (n - k) / s + 1.
Definition pool_spec_shape (shape ks ss : list Z) (ceil : bool) : list Z :=
  firstn (length shape - 2) shape
  ++ [pool_out_spec ceil (nth (length shape - 2) shape 0) (nth 0 ks 0) (nth 0 ss 0);
      pool_out_spec ceil (nth (length shape - 1) shape 0) (nth 1 ks 0) (nth 1 ss 0)].
(* the window of output (lead, y, x): rows y*sh .. min(y*sh+kh, H)-1, columns x*sw .. min(x*sw+kw, W)-1 *)
Definition pool_spec_window (idx shape ks ss : list Z) : list (list Z) :=
  let r := (length shape - 2)%nat in
  let lead := firstn r idx in
  let y := nth r idx 0 in let x := nth (S r) idx 0 in
  let H := nth r shape 0 in let W := nth (S r) shape 0 in
  let kh := nth 0 ks 0 in let kw := nth 1 ks 0 in let sh := nth 0 ss 0 in let sw := nth 1 ss 0 in
  flat_map (fun a => map (fun b => lead ++ [a; b]) (map (Z.add (x * sw)) (zrange (Z.min (x * sw + kw) W - x * sw))))
           (map (Z.add (y * sh)) (zrange (Z.min (y * sh + kh) H - y * sh))).
Definition pool_spec {R} (red : list Z -> option R) (shape data ks ss : list Z) (ceil : bool) : option (list Z * list R) :=
  if negb (valid_pool_args shape ks ss) then None else
  let dst := pool_spec_shape shape ks ss ceil in
  match sequence (map (fun i => red (map (fun j => arr_get0 shape data j) (pool_spec_window i shape ks ss))) (lex_enum dst)) with
  | Some e => Some (dst, e)
  | None => None
  end.
(* both modes agree with PyTorch on every valid argument *)
Definition pool_dom (shape ks ss : list Z) (ceil : bool) : bool := valid_pool_args shape ks ss.

(* =====================================================================================================
   softmax / softmin as expression trees over ANY scalar structure (floats included): view/softmax.hpp:23
     a = reduce_maximum(x, axis, None, None, keepdims=True);  b = x - a;  c = exp(b);
     d = reduce_add(c, axis, None, None, keepdims=True);      return c / d
   A keepdims reduction along [ax] has extent 1 there; broadcasting it back reads it with component [ax] set to 0.
   ===================================================================================================== *)
Section Softmax.
Variables (A : Type) (sub div add mx : A -> A -> A) (ex neg : A -> A) (dflt : A).
(* the slice of x through index i along axis ax, in index order *)
Definition along (x : list Z -> A) (shape : list Z) (ax : nat) (i : list Z) : list A :=
  map (fun k => x (upd i ax k)) (zrange (nth ax shape 0)).
Definition fold1 (f : A -> A -> A) (l : list A) : A := match l with [] => dflt | h :: t => fold_left f t h end.
Definition reduce_keep (f : A -> A -> A) (x : list Z -> A) (shape : list Z) (ax : nat) : list Z -> A :=
  fun j => fold1 f (along x shape ax j).
Definition bcast_keep (r : list Z -> A) (ax : nat) : list Z -> A := fun i => r (upd i ax 0).
(* Model: the view composition of softmax.hpp *)
Definition softmax_model (x : list Z -> A) (shape : list Z) (ax : nat) : list Z -> A :=
  let a := reduce_keep mx x shape ax in
  let b := fun i => sub (x i) (bcast_keep a ax i) in
  let c := fun i => ex (b i) in
  let d := reduce_keep add c shape ax in
  fun i => div (c i) (bcast_keep d ax i).
Definition softmin_model (x : list Z -> A) (shape : list Z) (ax : nat) : list Z -> A :=
  softmax_model (fun i => neg (x i)) shape ax.
(* Spec: the definition with ITS stabilisation — the maximum m is the maximum of the slice through i along the axis
   (one maximum per slice, never one maximum for the whole array) *)
Definition softmax_spec (x : list Z -> A) (shape : list Z) (ax : nat) (i : list Z) : A :=
  let m := fold1 mx (along x shape ax i) in
  div (ex (sub (x i) m))
      (fold1 add (map (fun k => ex (sub (x (upd i ax k)) m)) (zrange (nth ax shape 0)))).
End Softmax.
