(* Select.v — C04: selecting / replicating / joining / generating views.
   MODEL: faithful executable image of
     include/nmtools/array/index/{tile,repeat,roll,pad,take,compress,resize,concatenate,
       sliding_window}.hpp, view/{split,expand,diagonal,diagflat,tril,triu,tri,eye,where,
       stack,hstack,vstack,dstack,column_stack,arange,linspace,full}.hpp  (tree with the fix: commits
       index::roll modulo the extent; wrap_axis in repeat / take / compress / concatenate; negative take
       entries; diagonal with negative offset / clamped length; arange empty range; linspace element 0).
   Every view is (shape function, index map dst index -> source designator): a view element
   is  src(indices(i));  pad / expand / tril / triu / diagflat / tri / eye return a "maybe"
   index (None = the fill operand), concatenate returns which operand is read.
   SPEC: NumPy's (or the documented) definition written independently as index formulas
   (prefix np_ / doc_).
   Conventions: extents, indices, repeats are the C++ unsigned values (non negative in every
   reachable state), so / and % are Z.div / Z.modulo; the signed computations (roll) use Z.rem
   as C++ does.  [at_neg] is nmtools::at with a signed run-time index (at.hpp:199-214:
   len + i for i < 0).  A position outside the list is an out-of-range access in the C++
   (exception or UB); it is not reachable when the shape function returned a value and is
   totalised to 0 / no-op here — the shape functions report it as [Trap]. *)
From NM Require Import Base Index Broadcast.
Local Open Scope Z_scope.

(* result of a shape function: a value, nmtools' Nothing, or an out-of-range access / assert *)
Inductive outcome (A : Type) := Val (a : A) | Nothing | Trap.
Arguments Val {A} a. Arguments Nothing {A}. Arguments Trap {A}.

(* ------------------------------------------------------------------------------------------ *)
(* helpers shared by the models                                                               *)

(* for (i = k; ...; i++) res[i] = (i == axis) ? f(l[i]) : l[i]     — the comparison is done in a
   signed type (promote_index_t<size_t,int> = int), so a negative axis never matches *)
Fixpoint map_at (k axis : Z) (f : Z -> Z) (l : list Z) : list Z :=
  match l with
  | [] => []
  | x :: t => (if k =? axis then f x else x) :: map_at (k + 1) axis f t
  end.

(* index::wrap_axis (normalize_axis.hpp): a negative axis is ndim + axis, anything else unchanged, no range check *)
Definition wrap_axis (a d : Z) : Z := if a <? 0 then d + a else a.

Definition neg_pos (l : list Z) (a : Z) : Z := if a <? 0 then zlen l + a else a.
Definition in_range (l : list Z) (p : Z) : bool := (0 <=? p) && (p <? zlen l).
Definition at_neg (l : list Z) (a : Z) : Z := znth l (neg_pos l a).
Definition set_neg (l : list Z) (a : Z) (v : Z) : list Z :=
  let p := neg_pos l a in if in_range l p then upd l (Z.to_nat p) v else l.

(* index::normalize_axis (normalize_axis.hpp): range test -d <= a < d, no duplicate test *)
Definition normalize_axis (a d : Z) : option Z :=
  if (- d <=? a) && (a <? d) then Some (if a <? 0 then d + a else a) else None.
Fixpoint normalize_axes (axes : list Z) (d : Z) : option (list Z) :=
  match axes with
  | [] => Some []
  | a :: t => match normalize_axis a d, normalize_axes t d with
              | Some x, Some r => Some (x :: r) | _, _ => None end
  end.

(* view::reshape (view/reshape.hpp:62-70): the index map of every reshape / flatten / expand_dims *)
Definition reshape_index (src dst i : list Z) : list Z :=
  compute_indices (compute_offset i (compute_strides dst)) src.

Fixpoint sumz (l : list Z) : Z := match l with [] => 0 | x :: t => x + sumz t end.

(* ------------------------------------------------------------------------------------------ *)
(* tile (index/tile.hpp:29,194)                                                               *)
(* shape_tile: for i = 0.. : ai = m-i-1, bi = n-i-1, si = s-i-1 (right aligned); missing side copies *)
Fixpoint tile_shape_rev (s r : list Z) : list Z :=
  match s, r with
  | [], _ => r
  | _, [] => s
  | a :: s', b :: r' => a * b :: tile_shape_rev s' r'
  end.
Definition shape_tile (s r : list Z) : list Z := rev (tile_shape_rev (rev s) (rev r)).
(* tile: ret[ai] = indices[bi] % shape[ai] while ai >= 0 (right aligned); ret has len(shape) entries *)
Fixpoint tile_idx_rev (s i : list Z) : list Z :=
  match s, i with
  | a :: s', x :: i' => x mod a :: tile_idx_rev s' i'
  | a :: s', [] => 0 :: tile_idx_rev s' []        (* at(indices, negative): not reachable, len(indices) >= len(shape) *)
  | [], _ => []
  end.
Definition tile_index (s i : list Z) : list Z := rev (tile_idx_rev (rev s) (rev i)).

(* ------------------------------------------------------------------------------------------ *)
(* repeat (index/repeat.hpp:40,199)                                                           *)
Definition shape_repeat_none (s : list Z) (r : Z) : list Z := [product s * r].
Definition repeat_none_index (s : list Z) (r : Z) (i : list Z) : list Z := compute_indices (hd 0 i / r) s.
(* with axis: ret = shape; at(ret,axis) = at(ret,axis) * repeats   (at: negative arm) *)
Definition shape_repeat_axis (s : list Z) (r a : Z) : outcome (list Z) :=
  if in_range s (neg_pos s a) then Val (set_neg s a (at_neg s a * r)) else Trap.
(* axis = wrap_axis(axis_, len(shape)); ret[i] = (i == axis) ? idx / repeats : idx.
   len(shape) = len(indices) on every path from the views (the result has the rank of the source), so the model
   wraps with the length of the index it is given *)
Definition repeat_axis_index (i : list Z) (r a : Z) : list Z := map_at 0 (wrap_axis a (zlen i)) (fun x => x / r) i.
(* repeats given per element: at(ret,axis) = sum(repeats) (len(repeats) == shape[axis] is an assert only);
   index: first position k with idx < cumsum(repeats)[k]  (where(f,csum), at(arg,0)) *)
Fixpoint cumsum_from (acc : Z) (l : list Z) : list Z :=
  match l with [] => [] | x :: t => (acc + x) :: cumsum_from (acc + x) t end.
Fixpoint first_lt (k idx : Z) (csum : list Z) : Z :=
  match csum with
  | [] => -1                                   (* at(arg,0) on an empty list: out-of-range, unreachable in bounds *)
  | c :: t => if idx <? c then k else first_lt (k + 1) idx t
  end.
Definition shape_repeat_list (s reps : list Z) (a : Z) : outcome (list Z) :=
  if in_range s (neg_pos s a) then Val (set_neg s a (sumz reps)) else Trap.
Definition repeat_list_index (i reps : list Z) (a : Z) : list Z :=
  map_at 0 (wrap_axis a (zlen i)) (fun x => first_lt 0 x (cumsum_from 0 reps)) i.

(* ------------------------------------------------------------------------------------------ *)
(* roll (index/roll.hpp:14,69,104; view/roll.hpp)                                             *)
(* normalize_roll_index: r = index % n (C++ remainder); (r < 0) ? r + n : r *)
Definition norm_roll (index n : Z) : Z := let r := Z.rem index n in if r <? 0 then r + n else r.
Definition shape_roll_axis (s : list Z) (a : Z) : outcome (list Z) :=
  match normalize_axis a (zlen s) with Some _ => Val s | None => Nothing end.
Definition roll_axis_index (s i : list Z) (shift a : Z) : list Z :=
  set_neg i a (norm_roll (at_neg i a - shift) (at_neg s a)).
(* tuple of axes: result = indices; for k: result[axis_k] = norm(indices[axis_k] - shift_k, shape[axis_k])
   — every step reads [indices], not [result]: for a repeated axis the last entry wins *)
Fixpoint roll_axes_loop (s i res shifts axes : list Z) : list Z :=
  match axes, shifts with
  | a :: axes', sh :: shifts' =>
      roll_axes_loop s i (set_neg res a (norm_roll (at_neg i a - sh) (at_neg s a))) shifts' axes'
  | _, _ => res
  end.
Definition shape_roll_axes (s axes : list Z) : outcome (list Z) :=
  match normalize_axes axes (zlen s) with Some _ => Val s | None => Nothing end.
Definition roll_axes_index (s i shifts axes : list Z) : list Z := roll_axes_loop s i i shifts axes.
(* normalize_roll_length: a scalar shift is replicated len(axis) times *)
Definition roll_axes_index_scalar (s i : list Z) (shift : Z) (axes : list Z) : list Z :=
  roll_axes_index s i (repeat shift (length axes)) axes.
(* axis = None (view/roll.hpp): reshape(roll(flatten(a), shift, 0), shape(a)) *)
Definition roll_none_index (s i : list Z) (shift : Z) : list Z :=
  let n := product s in
  let k := reshape_index [n] s i in                 (* outer reshape: index of the rolled 1-d view *)
  let k' := roll_axis_index [n] k shift 0 in
  reshape_index s [n] k'.                           (* flatten *)

(* ------------------------------------------------------------------------------------------ *)
(* pad (index/pad.hpp:24,100): widths = [before_0..before_{d-1}, after_0..after_{d-1}]        *)
Fixpoint pad_shape3 (s b a : list Z) : list Z :=
  match s, b, a with
  | x :: s', p :: b', q :: a' => x + p + q :: pad_shape3 s' b' a'
  | _, _, _ => []
  end.
Definition shape_pad (s w : list Z) : outcome (list Z) :=
  if zlen s * 2 =? zlen w then Val (pad_shape3 s (firstn (length s) w) (skipn (length s) w)) else Nothing.
(* loop with early exit; None = out_of_bound = the fill operand *)
Fixpoint pad_index (i s w : list Z) : option (list Z) :=
  match i, s, w with
  | x :: i', n :: s', p :: w' =>
      if (x >=? n + p) || (x - p <? 0) then None else option_map (cons (x - p)) (pad_index i' s' w')
  | _, _, _ => Some []
  end.

(* ------------------------------------------------------------------------------------------ *)
(* take (index/take.hpp)                                                                      *)
Definition shape_take_none (indices : list Z) : list Z := [zlen indices].
(* an entry e of [indices] is read as nm_index_t; e < 0 counts from the end (e + numel / e + extent); the result is
   stored into a size_t (wrap 64: an entry below -extent stays out of range) *)
Definition take_entry (e n : Z) : Z := wrap 64 (if e <? 0 then e + n else e).
Definition take_none_index (s indices i : list Z) : list Z :=
  compute_indices3 (take_entry (znth indices (hd 0 i)) (product s)) s (compute_strides s).
Definition shape_take_axis (s indices : list Z) (a : Z) : list Z :=
  map_at 0 (wrap_axis a (zlen s)) (fun _ => zlen indices) s.
(* res[i] = (i == axis) ? wrap(indices[dst_i]) : dst_i   with the extent shape[i] of the taken axis *)
Fixpoint take_at (k axis : Z) (indices s i : list Z) : list Z :=
  match i, s with
  | x :: i', n :: s' => (if k =? axis then take_entry (znth indices x) n else x) :: take_at (k + 1) axis indices s' i'
  | _, _ => []
  end.
Definition take_axis_index (s indices i : list Z) (a : Z) : list Z := take_at 0 (wrap_axis a (zlen s)) indices s i.

(* ------------------------------------------------------------------------------------------ *)
(* compress (index/compress.hpp): nonzero(condition) then as take                             *)
Fixpoint nonzero_pos (k : Z) (c : list Z) : list Z :=
  match c with [] => [] | x :: t => if x =? 0 then nonzero_pos (k + 1) t else k :: nonzero_pos (k + 1) t end.
Definition shape_compress_none (c : list Z) : list Z := [zlen (nonzero_pos 0 c)].
Definition compress_none_index (s c i : list Z) : list Z :=
  compute_indices3 (znth (nonzero_pos 0 c) (hd 0 i)) s (compute_strides s).
Definition shape_compress_axis (s c : list Z) (a : Z) : list Z :=
  map_at 0 (wrap_axis a (zlen s)) (fun _ => zlen (nonzero_pos 0 c)) s.
Definition compress_axis_index (c i : list Z) (a : Z) : list Z :=
  map_at 0 (wrap_axis a (zlen i)) (fun x => znth (nonzero_pos 0 c) x) i.

(* ------------------------------------------------------------------------------------------ *)
(* resize (index/resize.hpp:32,61): dims must agree, every requested extent > 0               *)
Definition shape_resize (s d : list Z) : outcome (list Z) :=
  if (zlen s =? zlen d) && forallb (fun x => 0 <? x) d then Val d else Nothing.
Fixpoint resize_index (i s d : list Z) : list Z :=
  match s, i, d with
  | n :: s', x :: i', m :: d' => n * x / m :: resize_index i' s' d'
  | _, _, _ => []
  end.

(* ------------------------------------------------------------------------------------------ *)
(* concatenate (index/concatenate.hpp:34,166; view/concatenate.hpp)                           *)
Definition shape_concat_none (a b : list Z) : list Z := [product a + product b].
Fixpoint shape_concat_from (k axis : Z) (a b : list Z) : option (list Z) :=
  match a, b with
  | [], [] => Some []
  | x :: a', y :: b' =>
      if k =? axis then option_map (cons (x + y)) (shape_concat_from (k + 1) axis a' b')
      else if x =? y then option_map (cons x) (shape_concat_from (k + 1) axis a' b')
      else None
  | _, _ => None
  end.
(* (success, shape): the view ignores [success] unless asserts are compiled in *)
Definition shape_concat_axis (a b : list Z) (axis : Z) : outcome (list Z) :=
  match shape_concat_from 0 (wrap_axis axis (zlen a)) a b with Some r => Val r | None => Nothing end.
Inductive operand := OpLeft (i : list Z) | OpRight (i : list Z) | OpNeither.
Definition concat_none_index (a b i : list Z) : operand :=
  let na := product a in let nb := product b in let k := hd 0 i in
  if k <? na then OpLeft (compute_indices k a)
  else if k <? na + nb then OpRight (compute_indices (k - na) b)
  else OpNeither.
Definition concat_axis_index (a b i : list Z) (axis : Z) : operand :=
  let w := wrap_axis axis (zlen a) in
  let aa := znth a w in let ba := znth b w in let ia := znth i w in
  if ia <? aa then OpLeft (firstn (length a) i)
  else if ia <? ba + aa then OpRight (firstn (length b) (map_at 0 w (fun x => x - aa) i))
  else OpNeither.

(* stack family: reshape both operands, then concatenate (view/stack.hpp, hstack, vstack, dstack, column_stack) *)
(* index::shape_expand_dims with one axis: normalised against dim+1, a 1 is inserted there *)
Fixpoint insert_one (k : nat) (s : list Z) : list Z :=
  match k, s with
  | O, _ => 1 :: s
  | S k', x :: t => x :: insert_one k' t
  | S _, [] => [1]
  end.
Definition shape_expand_dims1 (s : list Z) (a : Z) : outcome (list Z) :=
  match normalize_axis a (zlen s + 1) with Some p => Val (insert_one (Z.to_nat p) s) | None => Trap end.
Definition shape_vstack (s : list Z) : list Z := match s with [n] => [1; n] | _ => s end.
Definition shape_dstack (s : list Z) : list Z :=
  match s with [n] => [1; n; 1] | [n; m] => [n; m; 1] | _ => s end.
Definition shape_column_stack (s : list Z) : list Z := match s with [n] => [n; 1] | _ => s end.
Definition hstack_axis (s : list Z) : Z := if zlen s =? 1 then 0 else 1.
(* concatenate of two reshaped operands: ra / rb are the reshaped shapes *)
Definition joined_shape (ra rb : list Z) (axis : Z) : outcome (list Z) := shape_concat_axis ra rb axis.
Definition joined_index (a b ra rb i : list Z) (axis : Z) : operand :=
  match concat_axis_index ra rb i axis with
  | OpLeft j => OpLeft (reshape_index a ra j)
  | OpRight j => OpRight (reshape_index b rb j)
  | OpNeither => OpNeither
  end.

(* ------------------------------------------------------------------------------------------ *)
(* split (view/split.hpp: split_args + apply_slice): per part and axis a (start, stop) pair   *)
Definition split_sections_args (s : list Z) (n axis : Z) : list (list (Z * Z)) :=
  let ax := if axis >=? 0 then axis else zlen s + axis in
  let range := znth s ax / n in
  map (fun i => map (fun j => if j =? ax then (i * range, i * range + range) else (0, znth s j)) (zrange (zlen s)))
      (zrange n).
Definition split_indices_args (s idx : list Z) (axis : Z) : list (list (Z * Z)) :=
  let ax := if axis >=? 0 then axis else zlen s + axis in
  let n := zlen idx + 1 in
  map (fun i => map (fun j => if j =? ax
                               then ((if 0 <? i then znth idx (i - 1) else 0), (if i =? n - 1 then znth s ax else znth idx i))
                               else (0, znth s j)) (zrange (zlen s)))
      (zrange n).
(* a[start:stop] per axis for 0 <= start <= stop <= extent (the general slice arithmetic is property C05) *)
Definition part_shape (p : list (Z * Z)) : list Z := map (fun ab => snd ab - fst ab) p.
Fixpoint part_index (p : list (Z * Z)) (i : list Z) : list Z :=
  match p, i with ab :: p', x :: i' => x + fst ab :: part_index p' i' | _, _ => [] end.

(* ------------------------------------------------------------------------------------------ *)
(* sliding_window (index/sliding_window.hpp:19,114)                                           *)
(* window given per listed axis; axes are normalised for the shape, raw (at: negative arm) for the index *)
Fixpoint sw_shape_loop (res win axes : list Z) : list Z :=
  match axes, win with
  | a :: axes', w :: win' => sw_shape_loop (set_neg res a (at_neg res a - (w - 1))) win' axes'
  | _, _ => res
  end.
Definition shape_sliding_window_axes (s win axes : list Z) : outcome (list Z) :=
  match normalize_axes axes (zlen s) with
  | Some nax => Val (sw_shape_loop s win nax ++ win)
  | None => Trap                                           (* unwrap of Nothing *)
  end.
Fixpoint sw_index_loop (res wi axes : list Z) : list Z :=
  match axes, wi with
  | a :: axes', w :: wi' => sw_index_loop (set_neg res a (at_neg res a + w)) wi' axes'
  | _, _ => res
  end.
Definition sliding_window_axes_index (d : nat) (i axes : list Z) : list Z :=
  sw_index_loop (firstn d i) (skipn d i) axes.
(* axis = None: window per source axis (or one number for every axis, one window axis) *)
Fixpoint sw_none_shape (s win : list Z) : list Z :=
  match s, win with x :: s', w :: win' => x - (w - 1) :: sw_none_shape s' win' | _, _ => [] end.
Definition shape_sliding_window_none (s win : list Z) : list Z := sw_none_shape s win ++ win.
Fixpoint add_prefix (res wi : list Z) : list Z :=
  match res, wi with x :: r', w :: w' => x + w :: add_prefix r' w' | _, [] => res | [], _ => [] end.
Definition sliding_window_none_index (d : nat) (i : list Z) : list Z := add_prefix (firstn d i) (skipn d i).

(* ------------------------------------------------------------------------------------------ *)
(* expand (view/expand.hpp): spacing insertion along the listed axes, fill value elsewhere    *)
Fixpoint expand_shape_loop (res axes sp : list Z) : list Z :=
  match axes, sp with
  | a :: axes', q :: sp' => expand_shape_loop (set_neg res a (at_neg res a + (at_neg res a - 1) * q)) axes' sp'
  | _, _ => res
  end.
Definition shape_expand (s axes sp : list Z) : outcome (list Z) :=
  match normalize_axes axes (zlen s) with
  | Some nax => Val (expand_shape_loop s nax sp)
  | None => Trap
  end.
Fixpoint expand_index_loop (res axes sp : list Z) : option (list Z) :=
  match axes, sp with
  | a :: axes', q :: sp' =>
      if 0 <? at_neg res a mod (q + 1) then None
      else expand_index_loop (set_neg res a (at_neg res a / (q + 1))) axes' sp'
  | _, _ => Some res
  end.
Definition expand_index (s i axes sp : list Z) : option (list Z) :=
  match normalize_axes axes (zlen s) with
  | Some nax => expand_index_loop (firstn (length s) i) nax sp
  | None => None
  end.

(* ------------------------------------------------------------------------------------------ *)
(* diagonal (view/diagonal.hpp)                                                               *)
Fixpoint remove2 (k a1 a2 : Z) (l : list Z) : list Z :=
  match l with
  | [] => []
  | x :: t => if (k =? a1) || (k =? a2) then remove2 (k + 1) a1 a2 t else x :: remove2 (k + 1) a1 a2 t
  end.
Definition shape_diagonal (s : list Z) (offset a1 a2 : Z) : outcome (list Z) :=
  match normalize_axis a1 (zlen s), normalize_axis a2 (zlen s) with
  | Some n1, Some n2 =>
      let s1 := znth s n1 in let s2 := znth s n2 in
      let s1 := if offset <? 0 then s1 + offset else s1 in
      let s2 := if 0 <? offset then s2 - offset else s2 in
      let m := if s1 <? s2 then s1 else s2 in
      Val (remove2 0 n1 n2 s ++ [if m <? 0 then 0 else m])
  | _, _ => Trap
  end.
(* result[i] = next unused index for i not in {axis1, axis2};
   result[axis1] = last + (offset < 0 ? -offset : 0); result[axis2] = last + (offset > 0 ? offset : 0) *)
Fixpoint diag_fill (k a1 a2 : Z) (n : nat) (i : list Z) : list Z :=
  match n with
  | O => []
  | S n' => if (k =? a1) || (k =? a2) then 0 :: diag_fill (k + 1) a1 a2 n' i
            else hd 0 i :: diag_fill (k + 1) a1 a2 n' (tl i)
  end.
Definition diagonal_index (d : nat) (i : list Z) (offset n1 n2 : Z) : list Z :=
  let last := last i 0 in
  set_neg (set_neg (diag_fill 0 n1 n2 d i) n1 (last + (if offset <? 0 then - offset else 0)))
          n2 (last + (if 0 <? offset then offset else 0)).

(* diagflat (view/diagflat.hpp): flatten, (n+|k|) x (n+|k|), fill 0 *)
Definition shape_diagflat (n k : Z) : list Z := [n + Z.abs k; n + Z.abs k].
Definition diagflat_index (i : list Z) (k : Z) : option (list Z) :=
  let i0 := znth i (zlen i - 2) in let i1 := znth i (zlen i - 1) in
  if i1 =? i0 + k then Some [i0 + (if 0 <? k then 0 else k)] else None.

(* tril / triu (view/tril.hpp, triu.hpp): a 1-d source becomes n x n with row = source *)
Definition shape_tri_like (s : list Z) : list Z := match s with [n] => [n; n] | _ => s end.
Definition tril_index (s i : list Z) (k : Z) : option (list Z) :=
  let i0 := znth i (zlen i - 2) in let i1 := znth i (zlen i - 1) in
  let r := if 1 <? zlen s then firstn (length s) i else [i1] in
  if i1 >? i0 + k then None else Some r.
Definition triu_index (s i : list Z) (k : Z) : option (list Z) :=
  let i0 := znth i (zlen i - 2) in let i1 := znth i (zlen i - 1) in
  let r := if 1 <? zlen s then firstn (length s) i else [i1] in
  if i0 >? i1 - k then None else Some r.
(* tri / eye (view/tri.hpp, eye.hpp): operands (zeros(N,M), 1): the fill operand is 1 *)
Definition tri_is_one (i : list Z) (k : Z) : bool := znth i 1 <=? znth i 0 + k.
Definition eye_is_one (i : list Z) (k : Z) : bool := znth i 1 =? znth i 0 + k.

(* where (view/where.hpp): broadcast_arrays(condition, x, y), then c ? x : y element-wise *)
Definition where_shape (c x y : list Z) : option (list Z) := broadcast_shapes [c; x; y].
Definition where_index (cs xs ys : list Z) (cond : list Z -> Z) (i : list Z) : operand :=
  match broadcast_to_view cs (match where_shape cs xs ys with Some d => d | None => [] end),
        broadcast_to_view xs (match where_shape cs xs ys with Some d => d | None => [] end),
        broadcast_to_view ys (match where_shape cs xs ys with Some d => d | None => [] end) with
  | Some (_, fc), Some (_, fx), Some (_, fy) => if cond (fc i) =? 0 then OpRight (fy i) else OpLeft (fx i)
  | _, _, _ => OpNeither
  end.

(* generators.  arange (index/arange.hpp, view/arange.hpp): integer start/stop, step = p/q (q > 0):
   count = ceil_(float(diff)/step) where integer start / stop (run-time integers and integral constants, is_index_v) are subtracted as signed 64-bit values (so unsigned or mixed
   signed / unsigned arguments of a decreasing range do not wrap, and the difference is exact before the conversion to float);
   ceil_ returns 0 for a quotient that is not positive (empty range) *)
Definition ceil_div (a b : Z) : Z := - ((- a) / b).
Definition arange_len (start stop p q : Z) : outcome Z :=
  if p =? 0 then Trap
  else let num := (stop - start) * q in
       if (num * p <=? 0) then Val 0 else Val (ceil_div num p).
(* element i, as a numerator over q: start + element_type(index) * step (the index is converted to the element type before the
   product, so a negative integer step stays negative for floating element types too) *)
Definition arange_elem (start p q i : Z) : Z := start * q + i * p.
(* linspace (view/linspace.hpp): step = (stop-start)/(endpoint ? num-1 : num); element 0 = start, element i = start + i*step,
   as the pair (numerator, denominator); denominator 0 = division by zero (inf/nan in float) *)
Definition linspace_elem (start stop num : Z) (endpoint : bool) (i : Z) : Z * Z :=
  let dv := if endpoint then num - 1 else num in
  if i =? 0 then (start, 1) else (start * dv + i * (stop - start), dv).

(* ========================================================================================== *)
(* SPEC — NumPy / documented definitions                                                      *)

Definition set_nth (k : nat) (v : Z) (l : list Z) : list Z := firstn k l ++ v :: skipn (S k) l.
Definition np_axis (a d : Z) : option nat :=
  if (0 <=? a) && (a <? d) then Some (Z.to_nat a)
  else if (- d <=? a) && (a <? 0) then Some (Z.to_nat (a + d)) else None.
Definition pad1 (n : nat) (s : list Z) : list Z := repeat 1 (n - length s) ++ s.
Fixpoint map2 (f : Z -> Z -> Z) (a b : list Z) : list Z :=
  match a, b with x :: a', y :: b' => f x y :: map2 f a' b' | _, _ => [] end.

(* np.tile(A, reps): d = max(A.ndim, len(reps)); both are promoted to d by prepending 1s;
   out.shape = A.shape * reps; out[i] = A[i mod A.shape] *)
Definition np_tile_shape (s r : list Z) : list Z :=
  let d := Nat.max (length s) (length r) in map2 Z.mul (pad1 d s) (pad1 d r).
Definition np_tile_index (s i : list Z) : list Z :=
  skipn (length i - length s) (map2 Z.modulo i (pad1 (length i) s)).

(* np.repeat(a, r, axis=None): flat result of size a.size*r, out[k] = a.flat[k / r] *)
Definition np_repeat_none_shape (s : list Z) (r : Z) : list Z := [prod s * r].
Definition np_repeat_none_flat (r k : Z) : Z := k / r.
(* np.repeat(a, r, axis): extent of that axis multiplied; out[.., j, ..] = a[.., j / r, ..] *)
Definition np_repeat_axis_shape (s : list Z) (r a : Z) : option (list Z) :=
  match np_axis a (zlen s) with Some k => Some (set_nth k (nth k s 0 * r) s) | None => None end.
Definition np_repeat_axis_index (i : list Z) (r a : Z) : option (list Z) :=
  match np_axis a (zlen i) with Some k => Some (set_nth k (nth k i 0 / r) i) | None => None end.
(* np.repeat(a, [r0..], axis): position list along the axis is  0 (r0 times), 1 (r1 times), ... *)
Fixpoint np_repeat_positions (k : Z) (reps : list Z) : list Z :=
  match reps with [] => [] | r :: t => repeat k (Z.to_nat r) ++ np_repeat_positions (k + 1) t end.
Definition np_repeat_list_shape (s reps : list Z) (a : Z) : option (list Z) :=
  match np_axis a (zlen s) with
  | Some k => if zlen reps =? nth k s 0 then Some (set_nth k (zlen (np_repeat_positions 0 reps)) s) else None
  | None => None end.
Definition np_repeat_list_index (i reps : list Z) (a : Z) : option (list Z) :=
  match np_axis a (zlen i) with
  | Some k => Some (set_nth k (znth (np_repeat_positions 0 reps) (nth k i 0)) i) | None => None end.

(* np.roll(a, shift, axis): out[.., j, ..] = a[.., (j - shift) mod n, ..]; for a tuple of axes the shifts of
   equal axes add up; axis=None rolls the flattened array *)
Definition np_roll_axis_index (s i : list Z) (shift a : Z) : option (list Z) :=
  match np_axis a (zlen s) with
  | Some k => Some (set_nth k ((nth k i 0 - shift) mod nth k s 0) i) | None => None end.
Fixpoint np_total_shift (d : Z) (j : nat) (shifts axes : list Z) : option Z :=
  match axes, shifts with
  | a :: axes', sh :: shifts' =>
      match np_axis a d, np_total_shift d j shifts' axes' with
      | Some k, Some t => Some (if Nat.eqb k j then sh + t else t) | _, _ => None end
  | [], [] => Some 0
  | _, _ => None
  end.
Definition np_roll_axes_index (s i shifts axes : list Z) : option (list Z) :=
  sequence (map (fun j => match np_total_shift (zlen s) j shifts axes with
                          | Some t => Some ((nth j i 0 - t) mod nth j s 0) | None => None end)
                (seq 0 (length s))).
Definition np_roll_none_flat (s : list Z) (shift k : Z) : Z := (k - shift) mod prod s.

(* documented pad: widths [before_0.., after_0..]; out.shape_k = s_k + before_k + after_k;
   out[i] = a[i - before] when before_k <= i_k < before_k + s_k for every k, the constant otherwise *)
Definition doc_pad_shape (s w : list Z) : option (list Z) :=
  let d := length s in
  if (length w =? 2 * d)%nat then Some (map (fun k => nth k s 0 + nth k w 0 + nth (d + k) w 0) (seq 0 d)) else None.
Definition doc_pad_index (s w i : list Z) : option (list Z) :=
  let d := length s in
  if forallb (fun k => (nth k w 0 <=? nth k i 0) && (nth k i 0 <? nth k w 0 + nth k s 0)) (seq 0 d)
  then Some (map (fun k => nth k i 0 - nth k w 0) (seq 0 d)) else None.

(* np.take(a, idx, axis): negative entries count from the end *)
Definition np_wrap_index (n x : Z) : option Z :=
  if (0 <=? x) && (x <? n) then Some x else if (- n <=? x) && (x <? 0) then Some (x + n) else None.
Definition np_take_none_shape (indices : list Z) : list Z := [zlen indices].
Definition np_take_none_flat (s indices : list Z) (k : Z) : option Z := np_wrap_index (prod s) (znth indices k).
Definition np_take_axis_shape (s indices : list Z) (a : Z) : option (list Z) :=
  match np_axis a (zlen s) with Some k => Some (set_nth k (zlen indices) s) | None => None end.
Definition np_take_axis_index (s indices i : list Z) (a : Z) : option (list Z) :=
  match np_axis a (zlen s) with
  | Some k => match np_wrap_index (nth k s 0) (znth indices (nth k i 0)) with
              | Some x => Some (set_nth k x i) | None => None end
  | None => None end.

(* np.compress(cond, a, axis) = take of the positions where cond is true *)
Definition np_true_positions (c : list Z) : list Z := filter (fun k => negb (znth c k =? 0)) (zrange (zlen c)).

(* documented resize (nearest neighbour): same rank, out[i] = a[floor(i * n_src / n_dst)] per axis *)
Definition doc_resize_shape (s d : list Z) : option (list Z) :=
  if (length s =? length d)%nat && forallb (fun x => 1 <=? x) d then Some d else None.
Definition doc_resize_index (s d i : list Z) : list Z :=
  map (fun k => nth k i 0 * nth k s 0 / nth k d 0) (seq 0 (length s)).

(* np.concatenate((a, b), axis): same rank, equal extents off the axis; axis=None joins the flattened arrays *)
Fixpoint list_eqb (a b : list Z) : bool :=
  match a, b with [], [] => true | x :: a', y :: b' => (x =? y) && list_eqb a' b' | _, _ => false end.
Definition np_concat_axis_shape (a b : list Z) (axis : Z) : option (list Z) :=
  match np_axis axis (zlen a) with
  | Some k => if (length a =? length b)%nat && list_eqb (set_nth k 0 a) (set_nth k 0 b)
              then Some (set_nth k (nth k a 0 + nth k b 0) a) else None
  | None => None end.
Definition np_concat_axis_index (a i : list Z) (axis : Z) : operand :=
  match np_axis axis (zlen a) with
  | Some k => if nth k i 0 <? nth k a 0 then OpLeft i else OpRight (set_nth k (nth k i 0 - nth k a 0) i)
  | None => OpNeither end.
Definition np_concat_none_shape (a b : list Z) : list Z := [prod a + prod b].
(* flat designator: (false, k) = k-th element of a.flat, (true, k) = of b.flat *)
Definition np_concat_none_flat (a : list Z) (k : Z) : bool * Z := if k <? prod a then (false, k) else (true, k - prod a).

(* np.lib.stride_tricks.sliding_window_view(a, window, axis): out.shape = trimmed source shape ++ window;
   out[i ++ w] = a[j] with j_t = i_t + sum of the w_k whose axis is t *)
Fixpoint np_sw_sum (d : Z) (t : nat) (w axes : list Z) : Z :=
  match axes, w with
  | a :: axes', x :: w' => (match np_axis a d with Some k => if Nat.eqb k t then x else 0 | None => 0 end) + np_sw_sum d t w' axes'
  | _, _ => 0
  end.
Definition np_sw_shape (s win axes : list Z) : list Z :=
  map (fun t => nth t s 0 - np_sw_sum (zlen s) t (map (fun w => w - 1) win) axes) (seq 0 (length s)) ++ win.
Definition np_sw_index (d : nat) (i axes : list Z) : list Z :=
  map (fun t => nth t i 0 + np_sw_sum (Z.of_nat d) t (skipn d i) axes) (seq 0 d).

(* documented expand: along each listed axis n -> n + (n-1)*spacing; out[i] = a[i / (spacing+1)] when every listed
   coordinate is a multiple of spacing+1, the fill value otherwise *)
Definition doc_expand_shape1 (s : list Z) (a q : Z) : option (list Z) :=
  match np_axis a (zlen s) with Some k => Some (set_nth k (nth k s 0 + (nth k s 0 - 1) * q) s) | None => None end.
Definition doc_expand_index1 (i : list Z) (a q : Z) : option (option (list Z)) :=
  match np_axis a (zlen i) with
  | Some k => Some (if nth k i 0 mod (q + 1) =? 0 then Some (set_nth k (nth k i 0 / (q + 1)) i) else None)
  | None => None end.

(* np.diagonal(a, offset, axis1, axis2): the two axes are removed, the diagonal length appended;
   out[r ++ [t]] = a[.. t - min(offset,0) at axis1 .. t + max(offset,0) at axis2 ..] *)
Definition np_diag_len (n1 n2 offset : Z) : Z :=
  Z.max 0 (if 0 <=? offset then Z.min n1 (n2 - offset) else Z.min (n1 + offset) n2).
Fixpoint np_remove2 (k : nat) (a1 a2 : nat) (l : list Z) : list Z :=
  match l with
  | [] => []
  | x :: t => if Nat.eqb k a1 || Nat.eqb k a2 then np_remove2 (S k) a1 a2 t else x :: np_remove2 (S k) a1 a2 t
  end.
Definition np_diagonal_shape (s : list Z) (offset a1 a2 : Z) : option (list Z) :=
  match np_axis a1 (zlen s), np_axis a2 (zlen s) with
  | Some k1, Some k2 => if Nat.eqb k1 k2 then None
                        else Some (np_remove2 0 k1 k2 s ++ [np_diag_len (nth k1 s 0) (nth k2 s 0) offset])
  | _, _ => None end.
Fixpoint np_insert2 (k : nat) (a1 a2 : nat) (v1 v2 : Z) (n : nat) (r : list Z) : list Z :=
  match n with
  | O => []
  | S n' => if Nat.eqb k a1 then v1 :: np_insert2 (S k) a1 a2 v1 v2 n' r
            else if Nat.eqb k a2 then v2 :: np_insert2 (S k) a1 a2 v1 v2 n' r
            else hd 0 r :: np_insert2 (S k) a1 a2 v1 v2 n' (tl r)
  end.
Definition np_diagonal_index (d : nat) (i : list Z) (offset a1 a2 : Z) : option (list Z) :=
  match np_axis a1 (Z.of_nat d), np_axis a2 (Z.of_nat d) with
  | Some k1, Some k2 => let t := last i 0 in
      Some (np_insert2 0 k1 k2 (t - Z.min offset 0) (t + Z.max offset 0) d i)
  | _, _ => None end.

(* np.diagflat(v, k): (n+|k|)^2, out[r][c] = v.flat[r - max(-k,0)] when c = r + k, else 0 *)
Definition np_diagflat_index (i : list Z) (k : Z) : option Z :=
  if znth i 1 =? znth i 0 + k then Some (znth i 0 - Z.max (- k) 0) else None.
(* np.tril / np.triu on the last two axes (a 1-d input is first broadcast to n x n) *)
Definition np_tril_keep (i : list Z) (k : Z) : bool := znth i (zlen i - 1) <=? znth i (zlen i - 2) + k.
Definition np_triu_keep (i : list Z) (k : Z) : bool := znth i (zlen i - 1) >=? znth i (zlen i - 2) + k.
Definition np_tri_source (s i : list Z) : list Z := match s with [_] => [znth i 1] | _ => i end.

(* np.arange count: max(0, ceil((stop-start)/step)); np.linspace: [start] when num = 1 *)
Definition np_arange_len (start stop p q : Z) : Z := Z.max 0 (ceil_div ((stop - start) * q) p).
Definition np_linspace_elem (start stop num : Z) (endpoint : bool) (i : Z) : Z * Z :=
  if num =? 1 then (start, 1) else let dv := if endpoint then num - 1 else num in (start * dv + i * (stop - start), dv).

(* ========================================================================================== *)
(* ELEMENT TYPES of the joining views (concatenate, stack family, where): every result element is the source element
   converted to the element type of the view.  Values are exact dyadic rationals written as numerators over 4. *)
Inductive dtype := I8 | I32 | I64 | F32 | F64.
Definition is_float (d : dtype) : bool := match d with F32 | F64 => true | _ => false end.
Definition width (d : dtype) : Z := match d with I8 => 8 | I32 => 32 | I64 => 64 | F32 => 32 | F64 => 64 end.
(* MODEL  meta::common_type (meta/bits/transform/common_type.hpp): an integer with a floating type gives the floating type
   whatever the widths; otherwise the wider type, the right one on a tie *)
Definition cxx_common (a b : dtype) : dtype :=
  match is_float a, is_float b with
  | false, true => b
  | true, false => a
  | _, _ => if width b <? width a then a else b
  end.
(* SPEC  numpy.result_type on these five types *)
Definition np_common (a b : dtype) : dtype :=
  match a, b with
  | F64, _ | _, F64 => F64
  | F32, F32 | F32, I8 | I8, F32 => F32
  | F32, _ | _, F32 => F64
  | I64, _ | _, I64 => I64
  | I32, _ | _, I32 => I32
  | I8, I8 => I8
  end.
(* round to nearest, ties to even, p significant bits (exact on numerators: the denominator 4 is a power of two) *)
Definition round_sig (p n : Z) : Z :=
  let k := Z.log2 (Z.abs n) + 1 - p in
  if k <=? 0 then n else
  let u := 2 ^ k in let q := n / u in let r := n mod u in
  if r * 2 <? u then q * u else if u <? r * 2 then (q + 1) * u else (if Z.even q then q * u else (q + 1) * u).
(* conversion of a value (numerator over 4) to an element type: C++ truncates towards zero for integer targets *)
Definition conv (d : dtype) (n : Z) : Z :=
  match d with
  | F64 => round_sig 53 n
  | F32 => round_sig 24 n
  | I8 => swrap 8 (Z.quot n 4) * 4
  | I32 => swrap 32 (Z.quot n 4) * 4
  | I64 => swrap 64 (Z.quot n 4) * 4
  end.
(* n is a value of type d *)
Definition value_in (d : dtype) (n : Z) : Prop :=
  match d with
  | F64 => round_sig 53 n = n
  | F32 => round_sig 24 n = n
  | _ => n mod 4 = 0 /\ - 2 ^ (width d - 1) <= n / 4 < 2 ^ (width d - 1)
  end.
