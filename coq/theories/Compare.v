(* Compare.v — C18: utils::isequal / utils::isclose.
   MODEL: faithful image of include/nmtools/utility/isequal.hpp (as of the fix
   "isequal returns false for operands of different length, dimension or shape")
   and include/nmtools/utility/isclose.hpp (as of the fixes: run-time shape test, eps forwarded by the
   one-sided either arms, scalar difference taken in the common type).
   SPEC: structural equality / closeness, total.

   The C++ dispatches on static types; the model dispatches on the value's
   constructor, which is the run-time image of that type:
     Num z            arithmetic scalar (isclose: value scaled to an integer)
     Idx k l          1-d integer container: std::vector (KVec, also an ndarray),
                      std::array (KArr, fixed length, also an ndarray, "packed"),
                      tuple of integers (KTup, fixed length, "packed", NOT an ndarray)
     Arr s d          ndarray with run-time shape s and row-major buffer d
     MNone / MSome v  nmtools_maybe
     ELeft / ERight   nmtools_either, active alternative
     Tuple l          tuple of arbitrary operands ("packed")
   Outcomes: Ret b | Abort (assert fails, asserts enabled) | UB (a read outside an
   operand's storage) | Reject (the pairing does not compile: static_assert /
   ISEQUAL_UNSUPPORTED; the value-level image of a compile-time rejection). *)
From NM Require Import Base Index.
Local Open Scope Z_scope.

Inductive ikind := KVec | KArr | KTup.
Definition fixedk k := match k with KVec => false | _ => true end.   (* meta::is_fixed_index_array_v *)
Definition ndk k := match k with KTup => false | _ => true end.      (* meta::is_ndarray_v *)

Inductive val : Type :=
| Num (z : Z)
| Idx (k : ikind) (l : list Z)
| Arr (s d : list Z)
| MNone | MSome (v : val)
| ELeft (v : val) | ERight (v : val)
| Tuple (l : list val).
Definition Maybe (o : option val) : val := match o with None => MNone | Some v => MSome v end.
Definition Either (e : val + val) : val := match e with inl v => ELeft v | inr v => ERight v end.

Inductive out := Ret (b : bool) | Abort | UB | Reject.

(* `equal = equal && f(...)`: f is not executed once equal is false; a pairing that
   does not compile rejects the whole call *)
Definition and_out (a b : out) : out :=
  match a with
  | Ret true => b
  | Ret false => match b with Reject => Reject | _ => Ret false end
  | o => o
  end.

Fixpoint all2 (f : Z -> Z -> bool) (a b : list Z) : bool :=
  match a, b with
  | [], [] => true
  | x :: a', y :: b' => f x y && all2 f a' b'
  | _, _ => false
  end.

(* ---------- index-array branch (isequal.hpp:336-385) ---------- *)

(* run-time loop (both std::vector): for i < len(t): t_i = at(t,i); u_i = at(u,i); equal = equal && t_i == u_i *)
Fixpoint idx_loop_dyn (t u : list Z) (i n : nat) (eq : bool) : out :=
  match n with
  | O => Ret eq
  | S n' => match nth_error t i, nth_error u i with
            | Some a, Some b => idx_loop_dyn t u (S i) n' (eq && (a =? b))
            | _, _ => UB
            end
  end.
(* template_for<N>: equal = equal && (at(t,i) == at(u,i))  — reads skipped once false *)
Fixpoint idx_loop_fix (t u : list Z) (i n : nat) (eq : bool) : out :=
  match n with
  | O => Ret eq
  | S n' => if eq then match nth_error t i, nth_error u i with
                       | Some a, Some b => idx_loop_fix t u (S i) n' (a =? b)
                       | _, _ => UB
                       end
            else idx_loop_fix t u (S i) n' false
  end.

Definition isequal_idx (kt : ikind) (t : list Z) (ku : ikind) (u : list Z) : out :=
  if fixedk kt && fixedk ku && negb (length t =? length u)%nat then Ret false    (* if constexpr T_LEN != U_LEN *)
  else if negb (length t =? length u)%nat then Ret false                           (* len(t) != len(u) *)
  else if fixedk kt then idx_loop_fix t u 0 (length t) true
  else if fixedk ku then idx_loop_fix t u 0 (length u) true
  else idx_loop_dyn t u 0 (length t) true.

(* ---------- ndarray branch (isequal.hpp:401-435, isclose.hpp:277-297) ---------- *)

(* apply_at(a, ndindex(shape)[i]) : data[compute_offset(compute_indices(i,shape), strides)] *)
Definition arr_read (s d : list Z) (i : Z) : option Z :=
  let o := compute_offset (compute_indices i s) (compute_strides s) in
  if o <? 0 then None else nth_error d (Z.to_nat o).

Fixpoint arr_loop (cmp : Z -> Z -> bool) (s d s' d' : list Z) (i : Z) (n : nat) (acc : bool) : out :=
  match n with
  | O => Ret acc
  | S n' => if acc then match arr_read s d i, arr_read s' d' i with
                        | Some a, Some b => arr_loop cmp s d s' d' (i + 1) n' (cmp a b)
                        | _, _ => UB
                        end
            else arr_loop cmp s d s' d' (i + 1) n' false
  end.

(* nd = true: NDEBUG (assert compiled out) *)
Definition isequal_arr (nd : bool) (s d s' d' : list Z) : out :=
  if negb (length s =? length s')%nat then Ret false                    (* t_dim != u_dim *)
  else match isequal_idx KVec s KVec s' with                             (* !isequal(t_shape,u_shape) *)
       | Ret true =>
           if negb (product s =? product s') && negb nd then Abort      (* nmtools_cassert(t_size == u_size) *)
           else arr_loop Z.eqb s d s' d' 0 (Z.to_nat (product s)) true
       | Ret false => Ret false
       | o => o
       end.

(* ---------- floating elements (isclose) ----------
   An element is a finite value (an integer on the common scale of values and eps), an infinity or a NaN.  isclose
   computes fabs(t - u) < eps in IEEE arithmetic (isclose.hpp:262-268, NMTOOLS_ISCLOSE_NAN_HANDLING and
   NMTOOLS_ISCLOSE_INF_HANDLING are 0 by default): the difference is NaN when an operand is NaN or both are the same
   infinity, infinite when exactly one operand is infinite or the infinities differ, and an ordered comparison with NaN
   is false — so the result is false unless both operands are finite.  -0.0 is the value 0; a denormal is the value 0 on
   the wire's quarter grid; +-DBL_MAX / +-FLT_MAX are finite values whose differences may overflow (to an infinity, i.e.
   not below eps — as their exact difference). *)
Inductive fval := Fin (z : Z) | PInf | NInf | NaN.
Definition fclose (eps : Z) (a b : fval) : bool :=
  match a, b with
  | Fin x, Fin y => Z.abs (x - y) <? eps
  | _, _ => false
  end.
(* the value universe stores elements as integers: reserved codes stand for the non-finite and extreme values *)
Definition c_nan : Z := 9000001.   Definition c_pinf : Z := 9000002.  Definition c_ninf : Z := 9000003.
Definition c_nzero : Z := 9000004. Definition c_denorm : Z := 9000005.
Definition c_max : Z := 9000006.   Definition c_nmax : Z := 9000007.  Definition c_fmax : Z := 9000008.  Definition c_nfmax : Z := 9000009.
Definition decode (z : Z) : fval :=
  if z =? c_nan then NaN else if z =? c_pinf then PInf else if z =? c_ninf then NInf
  else if (z =? c_nzero) || (z =? c_denorm) then Fin 0
  else if z =? c_max then Fin (2 ^ 1030) else if z =? c_nmax then Fin (- 2 ^ 1030)
  else if z =? c_fmax then Fin (2 ^ 130) else if z =? c_nfmax then Fin (- 2 ^ 130)
  else Fin z.
Definition finitez (z : Z) : bool := match decode z with Fin _ => true | _ => false end.
Definition close (eps a b : Z) : bool := fclose eps (decode a) (decode b).

(* after the fix "isclose returns false for ndarrays of different dimension or shape": the shape test is a
   run-time comparison through detail::isequal (index-array branch), no assert is left; [nd] is kept so that
   both builds are still quantified over (they now behave alike) *)
Definition isclose_arr (nd : bool) (eps : Z) (s d s' d' : list Z) : out :=
  match isequal_idx KVec s KVec s' with                                  (* if (!detail::isequal(t_shape,u_shape)) return false; *)
  | Ret true => arr_loop (close eps) s d s' d' 0 (Z.to_nat (product s)) true
  | Ret false => Ret false
  | o => o
  end.

Definition as_arr (v : val) : option (list Z * list Z) :=
  match v with
  | Arr s d => Some (s, d)
  | Idx k l => if ndk k then Some ([zlen l], l) else None
  | _ => None
  end.

(* the non-wrapper arms of detail::isequal / detail::isclose *)
Definition leaf_eq (nd : bool) (e : Z) (x y : val) : out :=
  match x, y with
  | Num a, Num b => Ret (a =? b)
  | Idx k l, Idx k' l' => isequal_idx k l k' l'
  | _, _ => match as_arr x, as_arr y with
            | Some (s, d), Some (s', d') => isequal_arr nd s d s' d'
            | _, _ => Reject                                             (* ISEQUAL_UNSUPPORTED *)
            end
  end.
Definition leaf_cl (nd : bool) (e : Z) (x y : val) : out :=
  match x, y with
  | Num a, Num b => Ret (close e a b)
  | _, _ => match as_arr x, as_arr y with
            | Some (s, d), Some (s', d') => isclose_arr nd e s d s' d'
            | _, _ => Reject                                             (* ISCLOSE_UNSUPPORTED *)
            end
  end.

(* ---------- maybe / either dispatch, shared shape of both headers ---------- *)

Fixpoint strip (v : val) : val := match v with MSome a => strip a | _ => v end.   (* resolve_optype_t<unwrap_t,..> *)

(* detail::same_concept(alternative, other operand) (isequal.hpp:85-114) *)
Definition same_concept (a y : val) : bool :=
  match strip a, y with
  | Num _, Num _ => true
  | Idx k l, Idx k' l' => if fixedk k && fixedk k' then (length l =? length l')%nat else ndk k && ndk k'
  | Arr _ _, Arr _ _ => true
  | Idx k _, Arr _ _ => ndk k
  | Arr _ _, Idx k _ => ndk k
  | _, _ => false
  end.

Section Generic.
  Variable leaf : Z -> val -> val -> out.
  Variable ee : Z -> Z.        (* eps in force after a one-sided either dispatch *)
  Variable pnum : Z -> Z -> Z -> bool.  (* scalar comparison used element-wise on packed integer containers *)
  Variable top_maybe : bool.   (* the public entry point has its own maybe arms (isequal) or not (isclose) *)

  (* detail::isequal / detail::isclose *)
  Fixpoint cmp_d (x : val) {struct x} : val -> Z -> out :=
    fix cy (y : val) (e : Z) {struct y} : out :=
    match x, y with
    | MNone, MNone => Ret true
    | MNone, MSome _ => Ret false
    | MSome _, MNone => Ret false
    | MSome a, MSome b => cmp_d a b e
    | MNone, _ => Ret false
    | MSome a, _ => cmp_d a y e
    | _, MNone => Ret false
    | _, MSome b => cy b e
    | ELeft a, ELeft b => cmp_d a b e
    | ERight a, ERight b => cmp_d a b e
    | ELeft _, ERight _ => Ret false
    | ERight _, ELeft _ => Ret false
    | ELeft a, _ => if same_concept a y then cmp_d a y (ee e) else Ret false
    | ERight a, _ => if same_concept a y then cmp_d a y (ee e) else Ret false
    | _, ELeft b => if same_concept b x then cy b (ee e) else Ret false
    | _, ERight b => if same_concept b x then cy b (ee e) else Ret false
    | _, _ => leaf e x y
    end.

  (* utils::isequal / utils::isclose (public entry) *)
  Fixpoint cmp_t (x : val) {struct x} : val -> Z -> out :=
    fix cy (y : val) (e : Z) {struct y} : out :=
    match x, y with
    | Tuple xs, Tuple ys =>
        (fix go (xs ys : list val) {struct xs} : out :=
           match xs, ys with
           | [], [] => Ret true
           | a :: xs', b :: ys' => and_out (cmp_t a b e) (go xs' ys')
           | _, _ => Reject                                    (* static_assert(nt == nu) *)
           end) xs ys
    | Idx k l, Idx k' l' =>
        if fixedk k && fixedk k'
        then (if (length l =? length l')%nat then Ret (all2 (pnum e) l l') else Reject)
        else cmp_d x y e
    | Tuple _, Idx _ _ => Reject     (* general tuple against an integer container: pairing not modelled *)
    | Idx _ _, Tuple _ => Reject
    | MNone, MNone => if top_maybe then Ret true else cmp_d x y e
    | MNone, MSome _ => if top_maybe then Ret false else cmp_d x y e
    | MSome _, MNone => if top_maybe then Ret false else cmp_d x y e
    | MSome a, MSome b => if top_maybe then cmp_t a b e else cmp_d x y e
    | MNone, _ => if top_maybe then Ret false else cmp_d x y e
    | MSome a, _ => if top_maybe then cmp_t a y e else cmp_d x y e
    | _, MNone => if top_maybe then Ret false else cmp_d x y e
    | _, MSome b => if top_maybe then cy b e else cmp_d x y e
    | _, _ => cmp_d x y e
    end.
End Generic.

Definition isequal_d (nd : bool) (x y : val) : out := cmp_d (leaf_eq nd) (fun e => e) x y 0.
Definition isequal (nd : bool) (x y : val) : out :=
  cmp_t (leaf_eq nd) (fun e => e) (fun _ a b => a =? b) true x y 0.
(* the one-sided either arms forward eps (after the fix "isclose(either, plain, eps) honours eps") *)
Definition isclose_d (nd : bool) (eps : Z) (x y : val) : out := cmp_d (leaf_cl nd) (fun e => e) x y eps.
Definition isclose (nd : bool) (eps : Z) (x y : val) : out :=
  cmp_t (leaf_cl nd) (fun e => e) close false x y eps.

(* =====================  SPEC  ===================== *)

(* a value seen as an array: (shape, elements) *)
Definition arr_of (v : val) : option (list Z * list Z) :=
  match v with
  | Arr s d => Some (s, d)
  | Idx _ l => Some ([zlen l], l)
  | _ => None
  end.

(* leaves: same kind, same dimension, same shape, all corresponding elements related *)
Definition lspec (r : Z -> Z -> bool) (x y : val) : bool :=
  match x, y with
  | Num a, Num b => r a b
  | _, _ => match arr_of x, arr_of y with
            | Some (s, d), Some (s', d') => all2 Z.eqb s s' && all2 r d d'
            | _, _ => false
            end
  end.

(* structural comparison: optionals (empty = empty, empty <> non-empty, a present value compares as
   its content), eithers alternative by alternative, tuples component by component *)
Fixpoint gspec (r : Z -> Z -> bool) (x : val) {struct x} : val -> bool :=
  fix sy (y : val) {struct y} : bool :=
  match x, y with
  | MNone, MNone => true
  | MNone, _ => false
  | _, MNone => false
  | MSome a, MSome b => gspec r a b
  | MSome a, _ => gspec r a y
  | _, MSome b => sy b
  | ELeft a, ELeft b => gspec r a b
  | ERight a, ERight b => gspec r a b
  | ELeft _, ERight _ => false
  | ERight _, ELeft _ => false
  | ELeft a, _ => gspec r a y
  | ERight a, _ => gspec r a y
  | _, ELeft b => sy b
  | _, ERight b => sy b
  | Tuple xs, Tuple ys =>
      (fix go (xs ys : list val) {struct xs} : bool :=
         match xs, ys with
         | [], [] => true
         | a :: xs', b :: ys' => gspec r a b && go xs' ys'
         | _, _ => false
         end) xs ys
  | _, _ => lspec r x y
  end.

Definition spec_equal (x y : val) : bool := gspec Z.eqb x y.
Definition spec_close (eps : Z) (x y : val) : bool := gspec (close eps) x y.

(* ---------- well-formed operands ---------- *)
(* alternatives of an either are scalars / integer containers that are ndarrays / ndarrays, possibly
   optional (the header marks nested eithers as TODO; tuples in an either are unsupported) *)
Fixpoint eitherok (v : val) : bool :=
  match v with
  | Num _ | Arr _ _ | MNone => true
  | Idx k _ => ndk k
  | MSome a => eitherok a
  | _ => false
  end.
Fixpoint wfb (v : val) : bool :=
  match v with
  | Num _ | MNone => true
  | Idx _ l => negb (length l =? 0)%nat
  | Arr s d => posb s && (zlen d =? prod s)
  | MSome a => wfb a
  | ELeft a | ERight a => wfb a && eitherok a
  | Tuple l => forallb wfb l
  end.
Fixpoint noeither (v : val) : bool :=
  match v with
  | ELeft _ | ERight _ => false
  | MSome a => noeither a
  | Tuple l => forallb noeither l
  | _ => true
  end.
(* no tuple-of-integers container anywhere (such a container is an index array but not an ndarray, so
   detail::same_concept never matches it against an either alternative) *)
Fixpoint notup (v : val) : bool :=
  match v with
  | Idx k _ => ndk k
  | MSome a | ELeft a | ERight a => notup a
  | Tuple l => forallb notup l
  | _ => true
  end.
(* pairs covered by the theorems: no either at all, or no tuple-of-integers at all *)
Definition pair_dom (x y : val) : bool := (noeither x && noeither y) || (notup x && notup y).

(* ---------- memory layout ----------
   An ndarray object is (layout, shape, physical buffer); apply_at(a, idx) reads buffer[layout_offset L shape idx]
   (Index.ndarray_get).  The ndarray branches above are stated on the LOGICAL row-major element list [d]; the
   layout-aware loop below is what the C++ executes on two buffer-owning operands of possibly different layouts, and
   CompareProofs.isequal_arrL_logical / isclose_arrL_logical show that it only depends on the logical elements
   [logical L s buf] (element k = the element at multi-index ndindex(s)[k]), whatever the two layouts are. *)
Definition arr_readL (L : layout) (s buf : list Z) (i : Z) : option Z :=
  let o := layout_offset L s (compute_indices i s) in
  if o <? 0 then None else nth_error buf (Z.to_nat o).
Fixpoint arr_loopL (cmp : Z -> Z -> bool) (L : layout) (s d : list Z) (L' : layout) (s' d' : list Z)
                   (i : Z) (n : nat) (acc : bool) : out :=
  match n with
  | O => Ret acc
  | S n' => if acc then match arr_readL L s d i, arr_readL L' s' d' i with
                        | Some a, Some b => arr_loopL cmp L s d L' s' d' (i + 1) n' (cmp a b)
                        | _, _ => UB
                        end
            else arr_loopL cmp L s d L' s' d' (i + 1) n' false
  end.
Definition isequal_arrL (nd : bool) (L : layout) (s d : list Z) (L' : layout) (s' d' : list Z) : out :=
  if negb (length s =? length s')%nat then Ret false
  else match isequal_idx KVec s KVec s' with
       | Ret true =>
           if negb (product s =? product s') && negb nd then Abort
           else arr_loopL Z.eqb L s d L' s' d' 0 (Z.to_nat (product s)) true
       | Ret false => Ret false
       | o => o
       end.
Definition isclose_arrL (nd : bool) (eps : Z) (L : layout) (s d : list Z) (L' : layout) (s' d' : list Z) : out :=
  match isequal_idx KVec s KVec s' with
  | Ret true => arr_loopL (close eps) L s d L' s' d' 0 (Z.to_nat (product s)) true
  | Ret false => Ret false
  | o => o
  end.
(* the logical (row-major enumeration) elements of an array object *)
Definition logical (L : layout) (s buf : list Z) : list Z :=
  map (fun k => match arr_readL L s buf k with Some v => v | None => 0 end) (zrange (prod s)).

(* ---------- integer element types ----------
   The model's elements are mathematical integers: the behaviour of a comparison carried out in a type that holds both
   operands' values.  Every integer comparison of isequal (scalar arm, index-array loops, ndarray loop) and the scalar
   difference of isclose are carried out in meta::common_type_t of the two element types: the WIDER width (the right
   operand's on a tie), signed when either operand is signed.  [eq_in_type s w] is a comparison in one w-bit type,
   [eq_common] the one the code performs.  It is exact whenever both values are representable in that type
   (CompareProofs.eq_in_type_exact) — different widths of equal signedness, an unsigned operand narrower than the signed
   one — and still wraps an unsigned operand that is as wide as the result (uint8 200 against int8 -56). *)
Definition eq_in_type (signed : bool) (w a b : Z) : bool :=
  if signed then swrap w a =? swrap w b else wrap w a =? wrap w b.
Definition eq_common (sa : bool) (wa : Z) (sb : bool) (wb : Z) (a b : Z) : bool :=
  eq_in_type (sa || sb) (Z.max wa wb) a b.
Definition in_range (signed : bool) (w z : Z) : Prop :=
  if signed then - 2 ^ (w - 1) <= z < 2 ^ (w - 1) else 0 <= z < 2 ^ w.

(* ---------- utils::apply_isequal / apply_isclose, maybe/maybe arm (apply_isequal.hpp:21-31) ----------
   has_left, has_right; equal = (has_left == has_right); the payloads are compared only when both operands hold a value *)
Definition apply_mm (cmp : val -> val -> out) (x y : option val) : out :=
  match x, y with
  | Some a, Some b => cmp a b
  | None, None => Ret true
  | _, _ => Ret false
  end.

(* every element of a value satisfies p *)
Fixpoint allelems (p : Z -> bool) (v : val) : bool :=
  match v with
  | Num z => p z
  | Idx _ l => forallb p l
  | Arr _ d => forallb p d
  | MNone => true
  | MSome a | ELeft a | ERight a => allelems p a
  | Tuple l => forallb (allelems p) l
  end.
