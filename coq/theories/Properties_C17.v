(* Properties_C17.v — C17: neural-network routines equal their reference (PyTorch) definitions.
   Statements only; proofs are in NNProofs.v, the model and the spec in NN.v.
   What is NOT here (correspondence only, see notes/C17.md): a closed theorem "every element of convnd equals the
   nested loop" and everything in floating point (softmax, norms, linear, bilinear, distances). *)
From NM Require Import Base Index IndexProofs NN NNProofs.
Local Open Scope Z_scope.

(* ---- 1. output shape of the whole conv pipeline = PyTorch's formula.
   Hypothesis = the boolean validity the runner evaluates on every case: ranks 4/4 (resp. 3/3), positive extents,
   groups | C and groups | O, stride >= 1, padding >= 0, dilation >= 1 (scalar, per axis, or absent), positive output.
   Any batch, channels, groups, kernel, stride, padding, (per-axis) dilation, bias, data. *)
Theorem C17_conv2d_out_shape : forall ishape idata wshape wdata bias st pd dl g,
  conv_dom 2 ishape wshape bias st pd dl g = true ->
  exists elems, convnd 2 ishape idata wshape wdata bias st pd dl g
                = Some (conv_spec_shape 2 ishape wshape st pd dl, elems).
Proof. exact conv2d_out_shape. Qed.
Print Assumptions C17_conv2d_out_shape.

Theorem C17_conv1d_out_shape : forall ishape idata wshape wdata bias st pd dl g,
  conv_dom 1 ishape wshape bias st pd dl g = true ->
  exists elems, convnd 1 ishape idata wshape wdata bias st pd dl g
                = Some (conv_spec_shape 1 ishape wshape st pd dl, elems).
Proof. exact conv1d_out_shape. Qed.
Print Assumptions C17_conv1d_out_shape.

(* ---- 2. the two non-trivial index maps, for any number of leading axes.
   sliding_window over the two trailing axes with window (kw, kh) on axes (-1, -2): the shape is
   lead ++ [H-kh+1; W-kw+1; kw; kh], element (l, y, x, a, b) is source element (l, y+b, x+a), in bounds. *)
Theorem C17_sliding_window_elem : forall (lead l : list Z) H W kw kh y x a b, length l = length lead ->
  shape_sliding_window (lead ++ [H; W]) [kw; kh] [-1; -2] = lead ++ [H - (kh - 1); W - (kw - 1); kw; kh]
  /\ sliding_window_idx (l ++ [y; x; a; b]) (zlen (lead ++ [H; W])) [-1; -2] = l ++ [y + b; x + a]
  /\ (inb (l ++ [y; x; a; b]) (lead ++ [H - (kh - 1); W - (kw - 1); kw; kh]) -> inb (l ++ [y + b; x + a]) (lead ++ [H; W])).
Proof.
  intros lead l H W kw kh y x a b E.
  split; [exact (sliding_window_shape2 lead H W kw kh)|].
  split; [exact (sliding_window_idx2 lead l H W y x a b E)|exact (sliding_window_inb2 lead l H W kw kh y x a b E)].
Qed.
Print Assumptions C17_sliding_window_elem.

(* expand (dilation = insertion of `spacing` fill elements between neighbours) on the two trailing axes:
   shape lead ++ [H+(H-1)sh; W+(W-1)sw]; position (l, y, x) is the fill value unless sh+1 | y and sw+1 | x, and then it is
   source (l, y/(sh+1), x/(sw+1)), which is in bounds; source (Y, X) is found at (Y(sh+1), X(sw+1)). *)
Theorem C17_expand_elem : forall (lead l : list Z) H W sw sh y x, length l = length lead ->
  shape_expand (lead ++ [H; W]) [-1; -2] [sw; sh] = lead ++ [H + (H - 1) * sh; W + (W - 1) * sw]
  /\ expand_idx (l ++ [y; x]) (zlen (lead ++ [H; W])) [-1; -2] [sw; sh]
     = (if (0 <? x mod (sw + 1)) || (0 <? y mod (sh + 1)) then None else Some (l ++ [y / (sh + 1); x / (sw + 1)]))
  /\ (forall n sp v, 0 <= sp -> 1 <= n -> 0 <= v < n + (n - 1) * sp -> v mod (sp + 1) = 0 -> 0 <= v / (sp + 1) < n)
  /\ (forall sp V, 0 <= sp -> (V * (sp + 1)) mod (sp + 1) = 0 /\ V * (sp + 1) / (sp + 1) = V).
Proof.
  intros lead l H W sw sh y x E.
  split; [exact (expand_shape2 lead H W sw sh)|]. split; [exact (expand_idx2 lead l H W sw sh y x E)|].
  split; [exact expand_bound|exact expand_scaled].
Qed.
Print Assumptions C17_expand_elem.

(* zero padding: index i of the padded array is the fill value unless before_k <= i_k < before_k + extent_k on every axis,
   and then it is source element i - before (any rank) *)
Theorem C17_pad_elem : forall idx src pw, length idx = length src -> (length src <= length pw)%nat ->
  pad_idx idx src pw =
    if forallb (fun t => (snd (fst t) <=? fst (fst t)) && (fst (fst t) <? snd (fst t) + snd t)) (combine (combine idx pw) src)
    then Some (map (fun t => fst t - snd t) (combine idx pw)) else None.
Proof. exact pad_idx_spec. Qed.
Print Assumptions C17_pad_elem.

(* ---- 3. groups.  The three reshapes of the pipeline, as index maps: output channel o of (N,O,h,w) is entry
   (G, o mod (O/g)) of the sum (N,g,O/g,h,w) with G = model_group; that entry of the reshaped weight (g,O/g,..) is weight
   row o; group G, channel c of the reshaped input (N,g,1,Cg,H,W) is input channel G*Cg + c.  And G is PyTorch's group
   o div (O/g), for every batch, every divisor g and every channel. *)
Theorem C17_conv_reshape_maps : forall N O Cg H W kh kw g h w n o c y x a b,
  1 <= N -> 1 <= O -> 1 <= g -> O mod g = 0 -> 1 <= Cg -> 1 <= H -> 1 <= W -> 1 <= kh -> 1 <= kw -> 1 <= h -> 1 <= w ->
  0 <= n < N -> 0 <= o < O -> 0 <= c < Cg -> 0 <= y < h -> 0 <= x < w -> 0 <= a < kh -> 0 <= b < kw -> y < H -> x < W ->
  model_group O g o = spec_group O g o
  /\ compute_indices (compute_offset [n; o; y; x] (compute_strides [N; O; h; w])) [N; g; O / g; h; w]
    = [n; model_group O g o; o mod (O / g); y; x]
  /\ compute_indices (compute_offset [model_group O g o; o mod (O / g); c; a; b] (compute_strides [g; O / g; Cg; kh; kw])) [O; Cg; kh; kw]
    = [o; c; a; b]
  /\ compute_indices (compute_offset [n; model_group O g o; 0; c; y; x] (compute_strides [N; g; 1; Cg; H; W])) [N; g * Cg; H; W]
    = [n; spec_group O g o * Cg + c; y; x].
Proof.
  intros N O Cg H W kh kw g h w n o c y x a b HN HO Hg HOg HCg HH HW Hkh Hkw Hh Hw Bn Bo Bc By Bx Ba Bb ByH BxW.
  destruct (model_group_spec O g o Hg HO HOg Bo) as [EG BG]. rewrite EG in *. unfold spec_group in *.
  destruct (div_pos_exact O g HO Hg HOg) as [Q1 Q2].
  pose proof (Z.mod_pos_bound o (O / g) ltac:(lia)) as Bm.
  split; [reflexivity|].
  split; [exact (reduce_reshape_index N O g h w n o y x HN HO Hg HOg Hh Hw Bn Bo By Bx)|].
  split.
  - rewrite (weight_reshape_index O Cg kh kw g (o / (O / g)) (o mod (O / g)) c a b) by assumption.
    f_equal. pose proof (Z.div_mod o (O / g) ltac:(lia)). lia.
  - apply input_reshape_index; try assumption; lia.
Qed.
Print Assumptions C17_conv_reshape_maps.

(* ---- 4. pooling.  Any rank >= 2, any positive extents, kernel <= input, stride >= 1, floor and ceil mode:
   shape_pool2d = PyTorch's formula (in ceil mode including "the last window must start inside the input") *)
Theorem C17_pool_out_shape : forall shape ks ss ceil, valid_pool_args shape ks ss = true ->
  shape_pool2d shape ks ss ceil = pool_spec_shape shape ks ss ceil.
Proof. exact pool_out_shape_dom. Qed.
Print Assumptions C17_pool_out_shape.

(* the floor-mode extent is the number of complete windows; in ceil mode every window starts inside the input, the
   windows before the last do not reach the end, and the last reaches the end or the next one would start outside *)
Theorem C17_pool_extent_meaning : forall n k s, 1 <= s -> 1 <= k <= n ->
  (let o := pool_extent false n k s in 1 <= o /\ (o - 1) * s + k <= n < o * s + k)
  /\ (let o := pool_extent true n k s in
      1 <= o /\ (o - 1) * s < n /\ (o - 2) * s + k < n /\ (n <= (o - 1) * s + k \/ n <= o * s)).
Proof. intros n k s Hs Hk. split; [exact (pool_floor_count n k s Hs Hk)|exact (pool_ceil_cover n k s Hs Hk)]. Qed.
Print Assumptions C17_pool_extent_meaning.

(* ---------- non-vacuity ---------- *)
Example C17_nonvacuous_conv2d :
  conv_dom 2 [2; 4; 5; 6] [4; 2; 3; 2] (Some [1; 2; 3; 4]) (AList [2; 1]) (AScalar 1) (AList [2; 1]) 2 = true
  /\ conv_spec_shape 2 [2; 4; 5; 6] [4; 2; 3; 2] (AList [2; 1]) (AScalar 1) (AList [2; 1]) = [2; 4; 2; 7].
Proof. split; reflexivity. Qed.
Example C17_nonvacuous_conv1d :
  conv_dom 1 [2; 3; 7] [6; 1; 3] None (AScalar 3) (AList [2]) ANone 3 = true
  /\ conv_spec_shape 1 [2; 3; 7] [6; 1; 3] (AScalar 3) (AList [2]) ANone = [2; 6; 3].
Proof. split; reflexivity. Qed.
Example C17_nonvacuous_pool :
  pool_dom [2; 3; 7; 5] [3; 2] [2; 3] true = true /\ shape_pool2d [2; 3; 7; 5] [3; 2] [2; 3] true = [2; 3; 3; 2]
  /\ pool_dom [2; 3; 7; 5] [3; 2] [2; 3] false = true /\ shape_pool2d [2; 3; 7; 5] [3; 2] [2; 3] false = [2; 3; 3; 2]
  /\ pool_dom [4; 4] [3; 3] [2; 2] true = true /\ shape_pool2d [4; 4] [3; 3] [2; 2] true = [2; 2]
  /\ pool_dom [1; 1; 3; 3] [1; 1] [3; 3] true = true /\ shape_pool2d [1; 1; 3; 3] [1; 1] [3; 3] true = [1; 1; 1; 1].
Proof. repeat split; reflexivity. Qed.
Example C17_nonvacuous_maps :
  sliding_window_idx [0; 1; 2; 3; 1; 2] 4 [-1; -2] = [0; 1; 4; 4]
  /\ expand_idx [0; 4; 2] 3 [-1; -2] [1; 1] = Some [0; 2; 1] /\ expand_idx [0; 4; 3] 3 [-1; -2] [1; 1] = None
  /\ pad_idx [0; 3; 1] [1; 3; 2] [0; 1; 1; 0; 1; 1] = Some [0; 2; 0] /\ pad_idx [0; 0; 1] [1; 3; 2] [0; 1; 1; 0; 1; 1] = None.
Proof. repeat split; reflexivity. Qed.
(* the model computes a real convolution (stride 2, padding 1, dilation 2) and agrees with the nested loop here *)
Example C17_nonvacuous_elem :
  convnd 2 [1; 1; 4; 5] (map Z.of_nat (seq 1 20)) [1; 1; 2; 2] [1; 2; 3; 4] None (AScalar 2) (AScalar 1) (AScalar 2) 1
  = Some ([1; 1; 2; 3], [28; 57; 27; 82; 152; 66])
  /\ conv_spec 2 [1; 1; 4; 5] (map Z.of_nat (seq 1 20)) [1; 1; 2; 2] [1; 2; 3; 4] None (AScalar 2) (AScalar 1) (AScalar 2) 1
  = Some ([1; 1; 2; 3], [28; 57; 27; 82; 152; 66]).
Proof. split; vm_compute; reflexivity. Qed.

(* ---- 5. pooling windows.  slice_pool2d of output (l, y, x) is (i, i+1) on every leading axis and
   (sh*y, sh*y+kh), (sw*x, sw*x+kw) on the two spatial axes; sliced with Python clamping a leading axis yields exactly
   its index and a spatial axis the range s*y .. min(s*y+k, n)-1 (the nested-loop window); every floor-mode window is
   complete (k elements per axis); every ceil-mode window has between 1 and k elements per axis (never empty). *)
Theorem C17_pool_window : forall (lead l : list Z) H W kh kw sh sw y x, length l = length lead ->
  slice_pool2d (l ++ [y; x]) (lead ++ [H; W]) [kh; kw] [sh; sw]
  = map (fun i => (znth (l ++ [y; x]) i, znth (l ++ [y; x]) i + 1)) (zrange (zlen lead))
    ++ [(sh * y, sh * y + kh); (sw * x, sw * x + kw)]
  /\ (forall n v, 0 <= v < n -> slice_range n (v, v + 1) = [v])
  /\ (forall n k s v, 0 <= s * v <= n -> 0 <= k ->
        slice_range n (s * v, s * v + k) = map (Z.add (s * v)) (zrange (Z.min (s * v + k) n - s * v)))
  /\ (forall n k s v, 1 <= s -> 1 <= k <= n -> 0 <= v < pool_extent false n k s ->
        s * v + k <= n /\ Z.min (s * v + k) n - s * v = k)
  /\ (forall n k s v, 1 <= s -> 1 <= k <= n -> 0 <= v < pool_extent true n k s ->
        s * v < n /\ 1 <= Z.min (s * v + k) n - s * v <= k).
Proof.
  intros lead l H W kh kw sh sw y x E.
  split; [exact (slice_pool2d_app lead l H W kh kw sh sw y x E)|].
  split; [exact slice_range_batch|]. split; [exact slice_range_window|].
  split; [exact window_complete_floor|exact window_nonempty_ceil].
Qed.
Print Assumptions C17_pool_window.
Example C17_nonvacuous_window :
  pool_window [1; 1; 2] [2; 5; 7] [3; 2] [2; 3] = [[1; 2; 6]; [1; 3; 6]; [1; 4; 6]]
  /\ pool_spec_window [1; 1; 2] [2; 5; 7] [3; 2] [2; 3] = [[1; 2; 6]; [1; 3; 6]; [1; 4; 6]].
Proof. split; reflexivity. Qed.

(* the inputs on which the code before the repairs failed (batch 2; groups 2 with two channels per group; dilation (1,2);
   3x3 pooling with kernel 1, stride 3 in ceil mode) now give the reference result *)
Example C17_former_witnesses :
  convnd 2 [2; 1; 3; 3] [1; 2; 3; 4; 5; 6; 7; 8; 9; 1; 2; 3; 4; 5; 6; 7; 8; 9] [1; 1; 2; 2] [1; 2; 3; 4] None ANone ANone ANone 1
    = conv_spec 2 [2; 1; 3; 3] [1; 2; 3; 4; 5; 6; 7; 8; 9; 1; 2; 3; 4; 5; 6; 7; 8; 9] [1; 1; 2; 2] [1; 2; 3; 4] None ANone ANone ANone 1
  /\ convnd 2 [1; 2; 2; 2] [1; 2; 3; 4; 5; 6; 7; 8] [4; 1; 1; 1] [1; 2; 3; 4] None (AScalar 1) (AScalar 0) (AScalar 1) 2
    = Some ([1; 4; 2; 2], [1; 2; 3; 4; 2; 4; 6; 8; 15; 18; 21; 24; 20; 24; 28; 32])
  /\ conv_spec 2 [1; 2; 2; 2] [1; 2; 3; 4; 5; 6; 7; 8] [4; 1; 1; 1] [1; 2; 3; 4] None (AScalar 1) (AScalar 0) (AScalar 1) 2
    = Some ([1; 4; 2; 2], [1; 2; 3; 4; 2; 4; 6; 8; 15; 18; 21; 24; 20; 24; 28; 32])
  /\ convnd 2 [1; 1; 3; 4] [1; 2; 3; 4; 5; 6; 7; 8; 9; 10; 11; 12] [1; 1; 2; 2] [1; 2; 3; 4] None (AList [1; 1]) (AList [0; 0]) (AList [1; 2]) 1
    = Some ([1; 1; 2; 2], [50; 60; 90; 100])
  /\ max_pool2d [1; 1; 3; 3] [1; 2; 3; 4; 5; 6; 7; 8; 9] [1; 1] [3; 3] true = Some ([1; 1; 1; 1], [1])
  /\ avg_pool2d [1; 1; 3; 3] [1; 2; 3; 4; 5; 6; 7; 8; 9] [1; 1] [3; 3] true = Some ([1; 1; 1; 1], [(1, 1)]).
Proof. vm_compute. repeat split; reflexivity. Qed.

(* ---- 6. softmax / softmin: the view composition of softmax.hpp (reduce_maximum with keepdims along the axis, subtract,
   exp, reduce_add with keepdims along the axis, divide) is, element by element and in ANY scalar structure (so also in
   IEEE float / double, whatever exp / max / + / / do there), the same expression as the definition
     exp(x_i - m) / sum_k exp(x_{i[ax:=k]} - m)   with  m = the maximum of THE SLICE through i along the axis.
   The stabilising maximum is per slice; a slice far below the rest of the array is shifted by its own maximum. *)
Theorem C17_softmax_structure : forall (A : Type) (sub div add mx : A -> A -> A) (ex neg : A -> A) (dflt : A) x shape ax i,
  softmax_model A sub div add mx ex dflt x shape ax i = softmax_spec A sub div add mx ex dflt x shape ax i
  /\ softmin_model A sub div add mx ex neg dflt x shape ax i
     = softmax_spec A sub div add mx ex dflt (fun j => neg (x j)) shape ax i.
Proof.
  intros. split; [apply softmax_structure|]. unfold softmin_model. apply softmax_structure.
Qed.
Print Assumptions C17_softmax_structure.

(* non-vacuity, in a toy structure over Z whose "exp" underflows to 0 below -100 (ex t = max 0 (t + 101)) and with
   quotients scaled by 1000: rows (0,1,2) and (200,201,202), softmax along the last axis.  Both rows give the same
   values because each is shifted by its own maximum; shifting by one global maximum (202) would make row 0 0/0 *)
Example C17_nonvacuous_softmax :
  let x := fun i : list Z => nth (Z.to_nat (horner 0 i [2; 3])) [0; 1; 2; 200; 201; 202] 0 in
  let ex := fun t => Z.max 0 (t + 101) in
  let sm := softmax_model Z Z.sub (fun a b => 1000 * a / b) Z.add Z.max ex 0 x [2; 3] 1%nat in
  map sm [[0; 0]; [0; 1]; [0; 2]; [1; 0]; [1; 1]; [1; 2]] = [330; 333; 336; 330; 333; 336]
  /\ (let gmax := 202 in 1000 * ex (x [0; 1] - gmax) / (ex (x [0; 0] - gmax) + ex (x [0; 1] - gmax) + ex (x [0; 2] - gmax))) = 0.
Proof. split; reflexivity. Qed.
